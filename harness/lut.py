"""Small synthetic look-up tables for emodulus (fast: a few nodes instead of
10^4), in dclab's mtext format."""
import json

import numpy as np

META = {"authors": "verif", "channel_width": 20.0, "channel_width_unit": "um",
        "date": "2024-01-01", "dimensionality": "2Daxis", "flow_rate": 0.04,
        "flow_rate_unit": "uL/s", "fluid_viscosity": 15.0,
        "fluid_viscosity_unit": "mPa s", "method": "FEM",
        "model": "linear elastic", "software": "none",
        "summary": "synthetic lattice LUT"}


def write_lut(path, nodes, identifier, features=("area_um", "deform"),
              meta=None):
    """nodes: (N, 3) array with columns features[0], features[1], emodulus"""
    md = dict(META, identifier=identifier)
    md.update(meta or {})
    units = {"area_um": "area_um [um^2]", "deform": "deform",
             "volume": "volume [um^3]"}
    lines = ["# synthetic LUT", "#", "# BEGIN METADATA"]
    lines += ["# " + ln for ln in json.dumps(md, indent=2,
                                             sort_keys=True).split("\n")]
    lines += ["# END METADATA", "#",
              "# " + "\t".join([units[features[0]], units[features[1]],
                                "emodulus [kPa]"])]
    for row in np.asarray(nodes, dtype=float):
        lines.append("\t".join("%.8e" % v for v in row))
    path.write_text("\n".join(lines) + "\n")
    return path


def small_lut(path, identifier="VERIF-2D-LAT-01"):
    """coarse grid over the usual (area, deform) range"""
    rows = []
    for a in np.linspace(20, 300, 8):
        for d in np.linspace(0.005, 0.2, 7):
            if d <= 0.02 + a / 1800.0:        # roughly the support's shape
                rows.append((a, d, 0.5 + 3.0 * (d * 40) ** -0.8 + a / 500.0))
    return write_lut(path, np.array(rows), identifier)


def register_small(scratch, identifier="VERIF-2D-LAT-01"):
    from dclab.features.emodulus import load
    if identifier not in load.EXTERNAL_LUTS:
        p = small_lut(scratch / (identifier + ".txt"), identifier)
        load.register_lut(p)
    return identifier
