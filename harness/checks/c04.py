"""C04 - A hierarchy child is exactly the filtered view of its parent.

spec: dataset/HierarchySpec (views, predicates and manual exclusions in root
ids); HierarchyTrace for recorded sessions.
"""
import random
import shutil

import numpy as np

from .. import evidence, findings, gen, hist, par, tlc, tracecheck
from ..shims import import_dclab

PID = "C04"
CFG = ("INIT HHInit\nNEXT {next}\nCONSTRAINT HCon\n"
       "INVARIANT ChildIsFilteredParent\nPROPERTY ManualStable\n"
       "CONSTANTS\n N = 5\n L = {L}\n Preds <- MCPreds\n MaxDepth = {d}\n"
       " Alternate = {alt}\nCHECK_DEADLOCK FALSE\n")
TRACE = ("INIT TInit\nNEXT TStep\nCONSTRAINT Report\nCONSTANTS\n N = 5\n"
         " L = 3\n Preds = {}\nCHECK_DEADLOCK FALSE\n")
FEATS = ("deform", "area_um", "image", "mask", "contour", "trace", "frame",
         "fl1_max")
EPS = 1.0 / 16384


class Tree:
    """root + L nested children, driven by abstract actions"""

    def __init__(self, root_path, L, n, kind="hdf5"):
        import dclab
        self.n = n
        if kind == "hdf5":
            self.root = dclab.new_dataset(root_path)
        else:
            with dclab.new_dataset(root_path) as src:
                d = {f: src[f][:] for f in ("deform", "area_um", "frame",
                                            "fl1_max")}
                d["image"] = src["image"][:]
                d["mask"] = src["mask"][:]
                self.root = dclab.new_dataset(d)
                self.root.config["imaging"]["frame rate"] = 2000.0
                self.root.config["imaging"]["pixel size"] = 0.34
        self.kind = kind
        dclab.set_temporary_feature(self.root, "verif_tmp",
                                    np.arange(1, n + 1) * 100.0 + 1)
        self.ds = [self.root]
        for _ in range(L):
            self.ds.append(dclab.new_dataset(self.ds[-1]))
        self.view = [list(range(1, n + 1)) for _ in range(L + 1)]
        self.patterns = True     # access patterns in observe()

    def step(self, st):
        import dclab
        a = st["a"]
        if a == "setpred":
            ids = sorted(st["P"])
            cfg = self.ds[st["l"]].config["filtering"]
            if not ids:
                # no event passes: a window below all values
                cfg["deform min"], cfg["deform max"] = -2.0, -1.0
            else:
                cfg["deform min"] = float(
                    gen.scalar("deform", [ids[0]])[0]) - EPS
                cfg["deform max"] = float(
                    gen.scalar("deform", [ids[-1]])[0]) + EPS
        elif a == "exclude":
            self.ds[st["l"]].filter.manual[st["i"] - 1] = False
        elif a == "include":
            self.ds[st["l"]].filter.manual[st["i"] - 1] = True
        elif a == "rootver":
            v = st["v"]
            self.root.config["imaging"]["frame rate"] = 2000.0 * v
            # (every second change also touches a key of the section that
            # is copied to the children)
            self.nver = getattr(self, "nver", 0) + 1
            if self.nver % 2 == 0:
                self.root.config["calculation"]["emodulus temperature"] = \
                    20.0 + self.nver
            dclab.set_temporary_feature(
                self.root, "verif_tmp",
                np.arange(1, self.n + 1) * 100.0 + v)
        elif a == "settemp":
            lvl = self.ds[st["l"]]
            dclab.set_temporary_feature(lvl, "verif_lvl",
                                        np.full(len(lvl), float(st["v"])))
        elif a == "rejuvenate":
            self.ds[-1].rejuvenate()
            return self.observe()
        else:
            raise ValueError(a)
        return None

    def observe(self):
        """views, visible manual exclusions, youngest selection; plus a
        feature-by-feature comparison with the root restricted to the view"""
        views, manvis, bad = {}, {}, []
        root = self.root
        views["0"] = list(range(1, self.n + 1))
        manvis["0"] = [int(i) + 1 for i in
                       np.flatnonzero(~root.filter.manual)]
        feats = [f for f in FEATS if f in root] + ["time", "verif_tmp"] + (
            ["verif_lvl"] if "verif_lvl" in root else [])
        for l in range(1, len(self.ds)):
            ch = self.ds[l]
            ids = gen.decode_scalar("deform", ch["deform"][:])
            if ids is None:
                ids = []
                bad.append("level %d: deform values altered" % l)
            if len(ch) != len(ids):
                bad.append("level %d: len() differs from data" % l)
            views[str(l)] = ids
            idx = np.array(ids, dtype=int) - 1
            for f in feats:
                if f == "deform":
                    continue
                try:
                    if f == "trace":
                        for nm in root["trace"]:
                            want = np.asarray(root["trace"][nm][:])[idx] \
                                if len(idx) else np.zeros((0, gen.TRACE_LEN))
                            got = np.asarray(ch["trace"][nm][:]) if len(idx) \
                                else np.zeros((0, gen.TRACE_LEN))
                            if not np.array_equal(got, want):
                                bad.append("level %d: trace differs" % l)
                    elif f == "contour":
                        for j, e in enumerate(idx):
                            if not np.array_equal(ch["contour"][j],
                                                  root["contour"][int(e)]):
                                bad.append("level %d: contour differs" % l)
                                break
                    elif f in ("image", "mask"):
                        for j, e in enumerate(idx):
                            if not np.array_equal(ch[f][j], root[f][int(e)]):
                                bad.append("level %d: %s differs" % (l, f))
                                break
                    else:
                        want = np.asarray(root[f][:])[idx] if len(idx) \
                            else np.zeros(0)
                        got = np.asarray(ch[f][:])
                        if not np.array_equal(got, want, equal_nan=True):
                            bad.append("level %d: %s differs" % (l, f))
                except Exception as exc:
                    bad.append("level %d: reading %s raises %s" % (
                        l, f, type(exc).__name__))
            # access patterns and reported shapes of the event-wise features
            n = len(idx)
            if n and self.patterns:
                sel2 = np.arange(n) % 2 == 0
                for f in feats:
                    if f not in ("image", "mask", "contour", "trace"):
                        continue
                    try:
                        if f == "trace":
                            nm = sorted(root["trace"])[0]
                            obj, ref = ch["trace"][nm], root["trace"][nm]
                        else:
                            obj, ref = ch[f], root[f]
                        single = [np.asarray(ref[int(e)]) for e in idx]
                        pats = {"negative int": (obj[-1], single[-1]),
                                "slice": (obj[0:n:2], single[0:n:2]),
                                "slice from the end": (obj[-2:], single[-2:]),
                                "slice up to the end": (obj[:-1],
                                                        single[:-1]),
                                "empty slice": (obj[0:0], single[0:0]),
                                "bool mask": (obj[sel2], single[0:n:2])}
                        for pn, (got, want) in pats.items():
                            if pn == "negative int":
                                ok = np.array_equal(np.asarray(got), want)
                            else:
                                got = [np.asarray(g) for g in got]
                                ok = len(got) == len(want) and all(
                                    np.array_equal(g, w)
                                    for g, w in zip(got, want))
                            if not ok:
                                bad.append("level %d: %s access '%s' differs"
                                           % (l, f, pn))
                        shp = getattr(obj, "shape", None)
                        if len(obj) != n or (shp is not None
                                             and shp[0] != n):
                            bad.append("level %d: %s reports a wrong "
                                       "length/shape" % (l, f))
                    except Exception as exc:
                        bad.append("level %d: %s access pattern raises %s"
                                   % (l, f, type(exc).__name__))
            man = ch.filter.manual
            if len(man) != len(ids):
                bad.append("level %d: manual filter has wrong length" % l)
                manvis[str(l)] = []
            else:
                manvis[str(l)] = sorted(ids[j] for j in
                                        np.flatnonzero(~man))
        last = self.ds[-1]
        lids = views[str(len(self.ds) - 1)]
        fa = last.filter.all
        sel = sorted(lids[j] for j in np.flatnonzero(fa)) \
            if len(fa) == len(lids) else None
        self.view = [views[str(l)] for l in range(len(self.ds))]
        # the temporary feature assigned through some level, as the root
        # holds it (0 = NaN / never assigned)
        if "verif_lvl" in root:
            tv = np.asarray(root["verif_lvl"][:], dtype=float)
            temp = [0 if np.isnan(x) else int(x) for x in tv]
        else:
            temp = [0] * self.n
        return {"views": views, "manvis": manvis, "sel": sel,
                "features": sorted(set(bad)), "temp": temp}


def sched_key(st):
    return (st["a"], st.get("l"), st.get("i"), st.get("v"),
            tuple(sorted(st["P"])) if "P" in st else None)


def exp_obs(st):
    if st["a"] != "rejuvenate":
        return None
    return {"views": {k: list(v) for k, v in st["views"].items()},
            "manvis": {k: sorted(v) for k, v in st["manvis"].items()},
            "sel": sorted(st["sel"]), "features": [],
            "temp": list(st["temp"])}


LOST = ("manual edit made after a temporary feature was assigned through an "
        "older level is lost")


def edit_after_settemp(evs):
    """evs: the steps before a refresh; True if in some refresh interval so
    far a temporary feature was assigned through some level l while a manual
    edit was pending on a level younger than l - made before or after the
    assignment (which refreshes level l and its ancestors only).  Once such
    an edit has been lost, the later intervals differ as well."""
    seg = []
    for e in list(evs) + [{"a": "rejuvenate"}]:
        if e["a"] != "rejuvenate":
            seg.append(e)
            continue
        lv = [x["l"] for x in seg if x["a"] == "settemp"]
        if lv and any(x["a"] in ("exclude", "include") and x["l"] > min(lv)
                      for x in seg):
            return True
        seg = []
    return False


def signature(steps, i, obs, exp):
    if obs is None or "raised" in obs:
        return "%s raises %s" % (steps[i]["a"], (obs or {}).get("raised"))
    e = exp[0]
    edits = [s["a"] + ("@%d" % s["l"] if "l" in s else "")
             for s in steps[:i] if s["a"] != "rejuvenate"]
    recent = edits[-1] if edits else "nothing"
    if obs["features"]:
        return "child feature differs from parent's selection: " + \
            obs["features"][0].split(": ")[1]
    if (obs["views"] != e["views"] or obs["manvis"] != e["manvis"]
            or obs["sel"] != e["sel"]) and edit_after_settemp(steps[:i]):
        return LOST
    if obs["views"] != e["views"]:
        return "child events are not the parent's selection (after %s)" \
            % recent
    if obs["manvis"] != e["manvis"]:
        return "manual exclusions not kept in root ids (after %s)" % recent
    if obs.get("temp") != e.get("temp"):
        return "temporary feature assigned through a level is wrong at " \
            "the root (after %s)" % recent
    return "youngest filter selection wrong (after %s)" % recent


_ROOT = {}


def _replay(job):
    root_path, L, sched, exps, kind = job
    steps = []
    for s in sched:
        st = {"a": s[0]}
        for k, v in zip(("l", "i", "v"), s[1:4]):
            if v is not None:
                st[k] = v
        if s[4] is not None:
            st["P"] = list(s[4])
        steps.append(st)
    tree = Tree(root_path, L, 5, kind)
    obs = []
    for k, st in enumerate(steps):
        # access patterns at the last refresh only (cost)
        tree.patterns = k == len(steps) - 1
        try:
            obs.append(tree.step(st))
        except Exception as exc:
            obs.append({"raised": type(exc).__name__ + ": " + str(exc)[:60]})
            break
    case = {"L": L, "root": kind,
            "steps": [[s["a"]] + [s[k] for k in ("l", "i", "v", "P")
                                  if k in s] for s in steps]}
    div = hist.first_divergence(obs, exps)
    viol = None
    if div is not None:
        i, allowed = div
        case["failing_step"] = i
        case["observed"] = obs[i]
        case["expected"] = allowed[:1]
        viol = (signature(steps, i, obs[i], allowed),
                "steps %s: observed %s expected %s" % (
                    case["steps"][:i + 1], obs[i], allowed[:1]), i)
    return case, viol


def _run_schedule(job):
    """execute a simulated schedule, record a trace for HierarchyTrace"""
    root_path, h = job
    tree = Tree(root_path, 3, 5)
    evs = []
    for st in h:
        st = dict(st)
        if st["a"] == "rejuvenate":
            st = {"a": "rejuvenate"}
        try:
            o = tree.step(st)
        except Exception as exc:
            evs.append({"a": st["a"], "raised": True})
            break
        e = {"a": st["a"], "raised": False}
        for k in ("l", "i", "v"):
            if k in st:
                e[k] = st[k]
        if "P" in st:
            e["P"] = sorted(st["P"])
        if o is not None:
            e["views"] = [o["views"][str(l)] for l in range(4)]
            e["manvis"] = [o["manvis"][str(l)] for l in range(4)]
            e["sel"] = o["sel"] if o["sel"] is not None else [-1]
            e["featbad"] = len(o["features"]) > 0
            e["temp"] = o["temp"]
        evs.append(e)
    return {"ev": evs}


IMPL_CFG = """INIT Init
NEXT Next
CONSTANTS
 N = 4
 L = 2
 Preds <- MCPreds
 HashAncestors = %s
 MaxDepth = %d
INVARIANT NoMappingError
INVARIANT ChildIsFilteredParent
INVARIANT ExclusionsStayWithEvents
CHECK_DEADLOCK FALSE
"""


def main(tier, seed, replay=None):
    dclab = import_dclab()
    dclab.register_temporary_feature("verif_tmp")
    dclab.register_temporary_feature("verif_lvl")
    ev = evidence.Evidence(PID, tier, seed)
    rep = findings.Reporter(PID, ev)
    ev.rule = ("every history of HierarchySpec made of (edit; rejuvenate) "
               "pairs (range filter on any level, manual exclude/include by "
               "position on any level, root data/config change) up to the "
               "depth bound for 2 (and 3, 4) nested children (plus focused "
               "runs: root windows of different and of equal size with "
               "manual edits on the youngest of 3 and 4 children) over a 5-event "
               "HDF5 root with scalar/image/mask/contour/trace/ancillary/"
               "temporary features is enumerated by TLC and executed; after "
               "every refresh each level's events (decoded root ids), every "
               "feature vs. the root restricted to those ids, the visible "
               "manual exclusions in root ids and the youngest selection are "
               "compared. TLC-simulated free interleavings over 3 children "
               "are executed, recorded and validated by TLC against "
               "HierarchyTrace. non-trivial = at least two edits; distinct "
               "by hash.")
    ev.assumptions = ["all refreshes go through youngest.rejuvenate()",
                      "range filters are intervals of a monotone feature"]
    q = tier == "quick"
    # design level: the transcribed algorithm (hfilter.py, mapper.py,
    # base.py) against the specification's FreshView via a ghost variable
    impl = tlc.run("MC_HierarchyImpl", IMPL_CFG % ("TRUE", 5 if q else 6),
                   timeout=3000)
    ev.add_tlc("MC_HierarchyImpl (parent hash incl. ancestors) N=4 L=2", impl)
    if not impl.ok:
        raise tlc.TLCError("HierarchyImpl (as repaired) violates %s\n%s" % (
            impl.violated, impl.cex))
    old = tlc.run("MC_HierarchyImpl", IMPL_CFG % ("FALSE", 7), timeout=3000)
    ev.extra["deviation_model_counterexample"] = old.violated
    if old.ok:
        raise tlc.TLCError("HierarchyImpl with the parent hash of the pinned "
                           "commit no longer yields a counterexample")
    scratch = tlc.scratch_dir("vp_c04_")
    try:
        root_path = scratch / "root.rtdc"
        gen.write_rtdc(root_path, list(range(1, 6)), feats=FEATS)
        plans = [(2, 6, "HHNext"), (2, 8, "FocusNext"), (3, 8, "ShiftNext"),
                 (4, 6, "ShiftNext"), (2, 4, "TempNext"), (3, 6, "ConfNext"),
                 (2, 6, "EmptyNext")] if q else [
            (2, 8, "EmptyNext"), (3, 6, "EmptyNext"),
            (3, 9, "ConfNext"), (4, 6, "ConfNext"),
            (2, 8, "TempNext"), (3, 4, "TempNext"),
            (2, 8, "HHNext"), (3, 6, "HHNext"), (1, 8, "HHNext"),
            (3, 10, "FocusNext"), (2, 10, "FocusNext"), (3, 10, "ShiftNext"),
            (4, 8, "ShiftNext"), (4, 6, "HHNext")]
        for L, d, nxt in plans:
            res = tlc.run("MC_Hierarchy", CFG.format(L=L, d=d, alt="TRUE",
                                                     next=nxt),
                          workers=8, timeout=3000)
            if not res.ok:
                raise tlc.TLCError("HierarchySpec violates %s\n%s" % (
                    res.violated, res.cex))
            ev.add_tlc("MC_Hierarchy L=%d depth %d (edit;rejuvenate)* %s" % (
                L, d, nxt), res)
            hs = res.tagged("H")
            if q and nxt == "HHNext":
                hs = par.sample(hs, 8, seed)
            if q and nxt == "EmptyNext":
                # histories in which a level is emptied after a manual edit
                # and filled again are all kept
                def _empt(h_):
                    acts = [(r_["a"], r_.get("P")) for r_ in h_]
                    ie = [i for i, (a_, p_) in enumerate(acts)
                          if a_ == "setpred" and p_ == []]
                    return bool(ie) and any(
                        a_ in ("exclude",) for a_, _ in acts[:ie[0]]) \
                        and any(a_ == "setpred" and p_
                                for a_, p_ in acts[ie[0] + 1:])
                keep = [h_ for h_ in hs if _empt(h_)]
                hs = keep + par.sample([h_ for h_ in hs if not _empt(h_)],
                                       6, seed)
                ev.extra["emptying_histories_kept"] = len(keep)
            if len(hs) > 8000:
                k = len(hs) // 8000 + 1
                hs = par.sample(hs, k, seed)
            groups = hist.group_by_schedule(hs, sched_key, exp_obs)
            jobs = [(root_path, L, sched, exps,
                     "dict" if (not q and i % 7 == 0) else "hdf5")
                    for i, (sched, exps) in enumerate(groups.items())]
            for case, viol in par.pmap(_replay, jobs, chunk=100):
                ev.traces += 1
                ev.case(case, nontrivial=sum(
                    1 for s in case["steps"] if s[0] != "rejuvenate") >= 2)
                if viol:
                    rep.violation(viol[0], viol[1], case, size=viol[2])
        # free interleavings (simulated), judged by trace validation
        num = 400 if q else 6000
        sim = tlc.run("MC_Hierarchy", CFG.format(L=3, d=12, alt="FALSE",
                                                 next="HHNext"),
                      workers=1, timeout=3000, simulate="num=%d" % num,
                      depth=13, seed=seed)
        ev.add_tlc("MC_Hierarchy simulate L=3 depth 12", sim)
        hs = sim.tagged("H")[:num]
        traces = par.pmap(_run_schedule, [(root_path, h) for h in hs],
                          chunk=50)
        res2, ok, rej = tracecheck.validate("HierarchyTrace", TRACE, traces,
                                            workers=8, timeout=3000)
        ev.add_tlc("HierarchyTrace (%d recorded sessions)" % len(traces),
                   res2)
        ev.traces += len(ok)
        ev.extra["recorded_traces"] = len(traces)
        ev.extra["recorded_traces_accepted"] = len(ok)
        for tid, (line, why) in sorted(rej.items()):
            t = traces[tid - 1]
            edits = [e["a"] + ("@%d" % e["l"] if "l" in e else "")
                     for e in t["ev"][:line] if e["a"] != "rejuvenate"]
            sig = {"views": "child events are not the parent's selection "
                            "(after %s)" % (edits[-1] if edits else "nothing"),
                   "manvis": "manual exclusions not kept in root ids (after "
                             "%s)" % (edits[-1] if edits else "nothing"),
                   "features": "child feature differs from parent's "
                               "selection (recorded)",
                   }.get(why, "trace rejected: " + why)
            if why in ("manvis", "views", "selection") and \
                    edit_after_settemp(t["ev"][:line - 1]):
                sig = LOST
            rep.violation(sig, "trace %d line %d (%s): %s" % (
                tid, line, why, str(t["ev"][line - 1])[:300]),
                {"prefix": t["ev"][:line]}, size=line)
        # binding self-test
        import copy
        good = [copy.deepcopy(t) for i, t in enumerate(traces, 1)
                if i in ok and any(e["a"] == "rejuvenate" and e["views"][1]
                                   for e in t["ev"])][:3]
        for t in good:
            e = next(e for e in t["ev"] if e["a"] == "rejuvenate"
                     and e["views"][1])
            e["views"][1] = e["views"][1][1:]
        if good:
            _, ok2, rej2 = tracecheck.validate("HierarchyTrace", TRACE, good,
                                               workers=2)
            ev.extra["binding_selftest_rejected"] = len(rej2)
            if len(rej2) != len(good):
                raise tlc.TLCError("binding self-test failed")
    finally:
        shutil.rmtree(scratch, ignore_errors=True)
    return rep.finish()
