"""X02 (beyond the listed properties) - the registry of polygon filters.

spec: numeric/PolygonRegistrySpec (identifiers of registered filters are
unique; a requested identifier in use is replaced by a free one; loading a
file never takes an identifier in use; remove / clear).  Spec -> code: every
history up to the depth bound is executed on PolygonFilter (create with and
without requested identifier, copy, remove, clear_all_filters, save_all,
import_all); after every step the registry (identifier and name of every
registered filter in order), the counter, unique_id_exists and
get_instance_from_id are compared with the spec.

Not part of MANIFEST.json; run with ./check X02.
"""
import shutil
import warnings

from .. import evidence, findings, par, tlc
from ..shims import import_dclab

PID = "X02"
CFG = """INIT RInit
NEXT RNext
CONSTRAINT HCon
INVARIANT UniqueIds
INVARIANT CounterAbove
PROPERTY RegisterKeeps
PROPERTY RemoveExact
CONSTANTS
 MaxId = {m}
 MaxDepth = {d}
CHECK_DEADLOCK FALSE
"""
PTS = [[0.0, 0.0], [1.0, 0.0], [1.0, 1.5], [0.0, 1.0]]


def _replay(job):
    from dclab.polygon_filter import PolygonFilter
    import os
    hist_, root = job
    path = root / ("reg%d_%d.poly" % (os.getpid(), _replay.n))
    _replay.n += 1
    steps, viol = [], None
    PolygonFilter.clear_all_filters()
    try:
        for i, rec in enumerate(hist_):
            st = rec["step"]
            a = st["a"]
            steps.append([a] + [st[k] for k in ("u", "i") if k in st])
            try:
                with warnings.catch_warnings():
                    warnings.simplefilter("ignore")
                    if a == "create":
                        kw = {} if st["u"] == -1 else {"unique_id": st["u"]}
                        PolygonFilter(axes=("area_um", "deform"), points=PTS,
                                      name="tok%d" % st["tok"], **kw)
                    elif a == "copy":
                        c = PolygonFilter.instances[st["i"] - 1].copy()
                        c.name = "tok%d" % st["tok"]
                    elif a == "remove":
                        PolygonFilter.remove(st["u"])
                    elif a == "clear":
                        PolygonFilter.clear_all_filters()
                    elif a == "save":
                        if path.exists():
                            path.unlink()
                        PolygonFilter.save_all(path)
                    elif a == "import":
                        PolygonFilter.import_all(path)
            except Exception as exc:
                viol = ("%s raises %s" % (a, type(exc).__name__),
                        "steps %s: %r" % (steps, exc), i)
                break
            want = [(e["id"], "tok%d" % e["tok"]) for e in rec["obs"]["live"]]
            got = [(p.unique_id, p.name) for p in PolygonFilter.instances]
            if got != want:
                viol = ("registry differs after " + a,
                        "steps %s: registered %s, specified %s" % (
                            steps, got, want), i)
                break
            if PolygonFilter._instance_counter != rec["obs"]["counter"]:
                viol = ("identifier counter differs after " + a,
                        "steps %s: %s, specified %s" % (
                            steps, PolygonFilter._instance_counter,
                            rec["obs"]["counter"]), i)
                break
            ids = dict(want)
            for u in range(0, 8):
                ex = PolygonFilter.unique_id_exists(u)
                try:
                    nm = PolygonFilter.get_instance_from_id(u).name
                except KeyError:
                    nm = None
                if ex != (u in ids) or nm != ids.get(u):
                    viol = ("look-up by identifier differs after " + a,
                            "steps %s: id %d exists=%s name=%s, specified "
                            "%s" % (steps, u, ex, nm, ids.get(u)), i)
                    break
            if viol:
                break
    finally:
        PolygonFilter.clear_all_filters()
        if path.exists():
            path.unlink()
    return {"steps": steps}, viol


_replay.n = 0


def main(tier, seed, replay=None):
    import_dclab()
    ev = evidence.Evidence(PID, tier, seed, subdir="extra")
    rep = findings.Reporter(PID, ev)
    ev.rule = ("PolygonRegistrySpec: every history of create (with / without "
               "requested identifier 0..MaxId), copy, remove, clear, save_all "
               "and import_all up to the depth bound is executed on "
               "PolygonFilter; registry content and order, counter and the "
               "look-ups by identifier are compared after every step. "
               "non-trivial = at least two registered filters at some point.")
    q = tier == "quick"
    res = tlc.run("PolygonRegistrySpec", CFG.format(m=2, d=4 if q else 5),
                  workers=8, timeout=3000)
    ev.add_tlc("PolygonRegistrySpec depth %d" % (4 if q else 5), res)
    if not res.ok:
        raise tlc.TLCError("PolygonRegistrySpec violates %s" % res.violated)
    hs = list(res.iter_tagged("H", consume=True))
    if not q:
        hs = par.sample(hs, 4, seed)
    root = tlc.scratch_dir("vp_x02_")
    try:
        for case, viol in par.pmap(_replay, [(h, root) for h in hs],
                                   chunk=100):
            ev.traces += 1
            ev.case(case, nontrivial=sum(
                1 for s in case["steps"] if s[0] in ("create", "copy",
                                                     "import")) >= 2)
            if viol:
                rep.violation(viol[0], viol[1], case, size=viol[2])
    finally:
        shutil.rmtree(root, ignore_errors=True)
    return rep.finish()
