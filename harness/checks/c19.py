"""C19 - Remote range-cached access returns the bytes of the resource.

specs: remote/HttpFileSpec (oracle), HttpFileImpl (design), HttpFileTrace.
"""
import io
import os
import random
import zlib
import re

from .. import evidence, findings, hist, par, tlc, tracecheck
from ..shims import import_dclab

PID = "C19"

ERR_BODY = b"<html><body>416 Requested Range Not Satisfiable</body></html>"


class FakeResponse:
    def __init__(self, status, content, total):
        self.status_code = status
        self.content = content
        self.reason = {200: "OK", 206: "Partial Content",
                       416: "Range Not Satisfiable"}[status]
        self.ok = status < 400
        self.headers = {"content-length": str(total if status == 200
                                              else len(content)),
                        "etag": '"0123456789abcdef"'}


class FakeSession:
    """In-memory server with RFC 7233 single-range semantics."""

    def __init__(self, blob):
        self.blob = blob
        self.requests = []

    def get(self, url, headers=None, stream=False, timeout=None, **kw):
        rng = (headers or {}).get("Range")
        n = len(self.blob)
        self.requests.append(rng)
        if rng is None:
            return FakeResponse(200, b"" if stream else self.blob, n)
        m = re.match(r"^bytes=(\d+)-(\d*)$", rng.strip())
        if m is None:
            # syntactically invalid range: the header is ignored
            return FakeResponse(200, self.blob, n)
        first = int(m.group(1))
        last = int(m.group(2)) if m.group(2) else n - 1
        if last < first:
            # syntactically invalid range: the header is ignored
            return FakeResponse(200, self.blob, n)
        if first >= n:
            return FakeResponse(416, ERR_BODY, n)
        return FakeResponse(206, self.blob[first:min(last, n - 1) + 1], n)

    def close(self):
        pass


_SESSION = []


def make_file(blob, cs, keep):
    """a new file object for THE url of the in-memory server, which now
    serves `blob`: as in a process that opens many resources, the session
    of the host lives as long as the process (dclab's session cache) and
    what a URL serves may have been replaced since it was last opened"""
    from dclab import http_utils
    if not _SESSION:
        base = getattr(http_utils, "ResoluteRequestsSession", object)

        class Session(FakeSession, base):
            def __init__(self, blob):
                if base is not object:
                    base.__init__(self)
                FakeSession.__init__(self, blob)
        _SESSION.append(Session(blob))
    ses = _SESSION[0]
    ses.blob = blob
    ses.requests = []
    url = "http://verif.invalid/resource"
    http_utils.session_cache.sessions["verif.invalid"] = ses
    return http_utils.HTTPFile(url, chunk_size=cs, keep_chunks=keep)


def project(blob, p, data):
    """decode returned bytes to the spec vocabulary [from, n] or 'junk'"""
    if not isinstance(data, (bytes, bytearray)):
        return "junk"
    if len(data) == 0:
        return {"from": 0, "n": 0}
    if blob[p:p + len(data)] == bytes(data):
        return {"from": p, "n": len(data)}
    return "junk"


def run_step(f, blob, step):
    """execute one abstract step on the real object, return observation"""
    a = step["a"]
    try:
        if a == "seek":
            f.seek(step["off"], step["whence"])
            return {"pos": f.tell()}
        if a == "tell":
            return {"pos": f.tell()}
        p = f.tell()
        if a == "read":
            d = f.read(step["n"])
        else:
            d = f.read()
        return {"ret": project(blob, p, d), "pos": f.tell(),
                "held": len(f.cache)}
    except Exception as exc:   # an exception is an observation, too
        return {"raised": type(exc).__name__}


def sched_key(s):
    return (s["a"], s.get("whence"), s.get("off"), s.get("n"))


def exp_obs(s):
    if s["a"] in ("read", "readall"):
        return {"ret": s["ret"], "pos": s["pos"]}
    return {"pos": s["pos"]}


def signature(step, obs, cs, keep, length, p):
    """abstract description of the failing step (for known findings)"""
    if "raised" in obs:
        return "%s raises %s" % (step["a"], obs["raised"])
    if step["a"] == "readall":
        return "read(-1) wrong"
    if step["a"] == "read" and step["n"] == 0:
        return "read(0) moves position"
    if step["a"] == "read" and p + step["n"] > length:
        return "read past end returns wrong bytes"
    return "%s wrong result" % step["a"]


HIST_CFG = """
INIT HInit
NEXT HNext
CONSTANTS
 HLens = {lens}
 MaxDepth = {depth}
 Lens <- HLens
 SeekSets <- {plan}SeekSets
 SeekCurs <- {plan}SeekCurs
 SeekEnds <- {plan}SeekEnds
 Sizes <- {plan}Sizes
CONSTRAINT HCon
INVARIANT TypeOK
INVARIANT ReadWithinResource
CHECK_DEADLOCK FALSE
"""

IMPL_CFG = """
INIT ImplInit
NEXT ImplNext
CONSTANTS
 MaxLen = {maxlen}
 MaxDepth = {depth}
 Lens <- MCLens
 SeekSets <- MCSeekSets
 SeekCurs <- MCSeekCurs
 SeekEnds <- MCSeekEnds
 Sizes <- MCSizes
 Configs <- MCConfigs
 ClampStop = {f}
 BreakFirst = {f}
 EvictSafe = {f}
 ReadAllWorks = {f}
 ReadZeroStays = {f}
CONSTRAINT Depth
INVARIANT BytesCorrect
INVARIANT CacheBounded
INVARIANT NoJunkCached
PROPERTY RefinesSpec
CHECK_DEADLOCK FALSE
"""

TRACE_CFG = """
INIT TInit
NEXT TStep
CONSTANTS
 Lens = {}
 SeekSets <- NoSet
 SeekCurs = {}
 SeekEnds = {}
 Sizes <- NoSet
CONSTRAINT Report
CHECK_DEADLOCK FALSE
"""


def tset(xs):
    return "{" + ", ".join(str(x) for x in sorted(xs)) + "}"


def _replay_group(job):
    """replay one schedule on the real object for every configuration"""
    length, sched, exps, configs = job
    blob = bytes(range(length))
    steps = [dict(a=s[0], whence=s[1], off=s[2], n=s[3]) for s in sched]
    nontrivial = any(s["a"] in ("read", "readall") for s in steps)
    out = []
    for cs, keep in configs:
        f = make_file(blob, cs, keep)
        obs, poss = [], []
        for st in steps:
            poss.append(f._pos)
            o = run_step(f, blob, st)
            held = o.pop("held", 0)
            if "raised" not in o and held > keep:
                o = {"raised": "chunks-held>%d" % keep}
            obs.append(o)
            if "raised" in o:
                break
        case = {"len": length, "cs": cs, "keep": keep, "steps": steps,
                "observed": obs}
        div = hist.first_divergence(obs, exps)
        viol = None
        if div is not None:
            i, allowed = div
            case["failing_step"] = i
            case["allowed"] = allowed[:4]
            viol = (signature(steps[i], obs[i], cs, keep, length, poss[i]),
                    "step %d %s observed %s" % (i, steps[i], obs[i]))
        out.append((case, nontrivial, viol))
    return out


def replay_histories(ev, rep, tier):
    """spec -> code: all histories of HttpFileSpec up to the bound"""
    if tier == "quick":
        plans = [dict(plan="A", lens=[8], depth=3),
                 dict(plan="B", lens=[0, 1, 5, 9], depth=3)]
        configs = [(cs, k) for cs in (1, 2, 3, 4, 8) for k in (1, 2, 3)]
    else:
        # (depth 4 on every length needs more than 40 GB: depth 4 on one
        # length, a quarter of the schedules by hash; depth 3 on all lengths)
        plans = [dict(plan="A", lens=[8], depth=4, keep=4),
                 dict(plan="B", lens=list(range(0, 10)), depth=3)]
        configs = [(cs, k) for cs in (1, 2, 3, 4, 5, 8, 16)
                   for k in (1, 2, 3, 5)]
    total = 0
    for plan in plans:
        cfg = HIST_CFG.format(lens=tset(plan["lens"]), depth=plan["depth"],
                              plan=plan["plan"])
        res = tlc.run("MC_HttpFileHist", cfg, workers=8, timeout=1500)
        if res.violated:
            raise tlc.TLCError("HttpFileSpec violates its own invariant: "
                               + res.cex)
        ev.add_tlc("MC_HttpFileHist plan=%s depth=%d lens=%s" % (
            plan["plan"], plan["depth"], plan["lens"]), res)
        by_len = {}
        keep = plan.get("keep", 1)
        for d in res.iter_tagged("H", consume=True):
            if keep > 1:
                key = repr([d["len"], [sched_key(st) for st in d["h"]]])
                if zlib.crc32(key.encode()) % keep:
                    continue
            by_len.setdefault(d["len"], []).append(d["h"])
        jobs = []
        for length, hs in sorted(by_len.items()):
            groups = hist.group_by_schedule(hs, sched_key, exp_obs)
            jobs.extend((length, sched, exps, configs)
                        for sched, exps in groups.items())
        for outs in par.pmap(_replay_group, jobs, chunk=200):
            for case, nontrivial, viol in outs:
                total += 1
                ev.case(case, nontrivial=nontrivial)
                if viol:
                    rep.violation(viol[0], viol[1], case,
                                  size=len(case["observed"]))
    ev.traces += total
    return total


def record_session(rng, length, cs, keep, nops):
    """code -> spec: a random session on the real object, recorded"""
    blob = bytes(rng.getrandbits(8) for _ in range(length))
    f = make_file(blob, cs, keep)
    evs = []
    interesting = sorted({0, length, max(0, length - 1), cs, 2 * cs,
                          max(0, length - cs), length + 1})
    for _ in range(nops):
        r = rng.random()
        if r < 0.35:
            whence = rng.choice([0, 0, 1, 2])
            if whence == 0:
                off = rng.choice(interesting + [rng.randrange(0, length + 3)])
            elif whence == 1:
                off = rng.randrange(-min(f.tell(), 3 * cs), 3 * cs + 1)
            else:
                off = rng.randrange(-min(length, 3 * cs), 2)
            f.seek(off, whence)
            evs.append({"a": "seek", "whence": whence, "off": off,
                        "pos": f.tell(), "held": len(f.cache)})
        elif r < 0.45:
            evs.append({"a": "tell", "pos": f.tell(), "held": len(f.cache)})
        else:
            p = f.tell()
            n = rng.choice([0, 1, cs - 1, cs, cs + 1, 2 * cs, 3 * cs + 1,
                            rng.randrange(0, 4 * cs + 2), -1])
            n = max(n, -1)
            e = {"a": "read" if n >= 0 else "readall", "from": 0, "cnt": 0,
                 "raised": False, "pos": p, "held": 0}
            if n >= 0:
                e["n"] = n
            try:
                d = f.read(n) if n >= 0 else f.read()
                pr = project(blob, p, d)
                if pr == "junk":
                    e["from"], e["cnt"] = -1, len(d)
                else:
                    e["from"], e["cnt"] = pr["from"], pr["n"]
                e["pos"] = f.tell()
                e["held"] = len(f.cache)
            except Exception:
                e["raised"] = True
                evs.append(e)
                break
            evs.append(e)
    return {"len": length, "keep": keep, "cs": cs, "ev": evs}


class RecordingFile(io.IOBase):
    """Wraps the real HTTPFile, records what h5py asks of it."""

    def __init__(self, f, blob):
        self.f, self.blob, self.evs = f, blob, []

    def seek(self, off, whence=0):
        self.f.seek(off, whence)
        self.evs.append({"a": "seek", "whence": int(whence), "off": int(off),
                         "pos": int(self.f.tell()), "held": len(self.f.cache)})
        return self.f.tell()

    def tell(self):
        p = self.f.tell()
        self.evs.append({"a": "tell", "pos": int(p),
                         "held": len(self.f.cache)})
        return p

    def read(self, size=-1):
        p = self.f.tell()
        d = self.f.read(size)
        pr = project(self.blob, p, d)
        e = {"a": "read" if size >= 0 else "readall", "raised": False,
             "from": pr["from"] if pr != "junk" else -1,
             "cnt": pr["n"] if pr != "junk" else len(d),
             "pos": int(self.f.tell()), "held": len(self.f.cache)}
        if size >= 0:
            e["n"] = int(size)
        self.evs.append(e)
        return d

    def readinto(self, b):
        d = self.read(len(b))
        b[:len(d)] = d
        return len(d)

    def seekable(self):
        return True

    def readable(self):
        return True


def h5_session(rng, nevents, cs, keep, scratch):
    """an .rtdc file read by h5py through the real HTTPFile; returns the
    recorded trace and the list of dataset-level differences vs local"""
    import h5py
    import numpy as np
    import dclab
    from dclab.rtdc_dataset import RTDCWriter
    path = scratch / ("f%d.rtdc" % rng.randrange(10**9))
    with RTDCWriter(path, mode="reset") as hw:
        hw.store_metadata({"experiment": {"sample": "verif", "run index": 1},
                           "imaging": {"pixel size": 0.34},
                           "setup": {"channel width": 20, "flow rate": 0.04,
                                     "chip region": "channel"}})
        hw.store_feature("deform", np.linspace(0.01, 0.2, nevents))
        hw.store_feature("area_um", np.linspace(20, 200, nevents))
        hw.store_feature("image", (np.arange(nevents * 8 * 12) % 251)
                         .astype(np.uint8).reshape(nevents, 8, 12))
        hw.store_log("verif-log", ["line %d" % i for i in range(7)])
        hw.store_table("tab", {"a": np.arange(5.), "b": np.arange(5.) * 2})
    blob = path.read_bytes()
    f = make_file(blob, cs, keep)
    rf = RecordingFile(f, blob)
    diffs = []
    with h5py.File(rf, "r") as h5, dclab.new_dataset(path) as ref:
        ds = dclab.rtdc_dataset.fmt_hdf5.RTDC_HDF5.__new__(
            dclab.rtdc_dataset.fmt_hdf5.RTDC_HDF5)
        for feat in ["deform", "area_um", "image"]:
            a = h5["events"][feat][:]
            b = ref[feat][:]
            if not np.array_equal(a, b):
                diffs.append("feature " + feat)
        idx = sorted(rng.sample(range(nevents), min(5, nevents)))
        if not np.array_equal(h5["events/image"][idx], ref["image"][idx]):
            diffs.append("image fancy")
        if dict(h5.attrs) .keys() != dict(ref.h5file.attrs).keys():
            diffs.append("attrs")
        for k in ref.h5file.attrs:
            va, vb = h5.attrs[k], ref.h5file.attrs[k]
            if not np.array_equal(np.asarray(va), np.asarray(vb)):
                diffs.append("attr " + k)
        if list(h5["logs/verif-log"][:]) != list(
                ref.h5file["logs/verif-log"][:]):
            diffs.append("logs")
        if not np.array_equal(h5["tables/tab"][:], ref.h5file["tables/tab"][:]):
            diffs.append("tables")
        del ds
    path.unlink()
    return {"len": len(blob), "keep": keep, "cs": cs, "ev": rf.evs}, diffs


def main(tier, seed, replay=None):
    import_dclab()
    ev = evidence.Evidence(PID, tier, seed)
    rep = findings.Reporter(PID, ev)
    ev.rule = ("histories = all action sequences of HttpFileSpec up to the "
               "depth bound (TLC, exhaustive), each replayed on the real "
               "HTTPFile for every (chunk size, keep) configuration; "
               "non-trivial = contains at least one read; distinct by hash "
               "of (len, cs, keep, steps, observations). Plus recorded random "
               "sessions and h5py access patterns validated by TLC against "
               "HttpFileTrace.")
    ev.assumptions = [
        "server honours RFC 7233 single byte ranges (emulated in-process)",
        "S3/DCOR transports not covered (no endpoint in the sandbox)"]

    # 1. design level: the algorithm as it is in the tree refines the spec
    fixed = tlc.run("MC_HttpFile", IMPL_CFG.format(
        maxlen=6 if tier == "quick" else 7,
        depth=4 if tier == "quick" else 5, f="TRUE"), timeout=1500)
    ev.add_tlc("MC_HttpFile (HttpFileImpl => HttpFileSpec, repaired flags)",
               fixed)
    ev.extra["design_refines_spec"] = bool(fixed.ok)
    if not fixed.ok:
        raise tlc.TLCError("HttpFileImpl (repaired) does not refine "
                           "HttpFileSpec: %s\n%s" % (fixed.violated,
                                                     fixed.cex))
    found = tlc.run("MC_HttpFile", IMPL_CFG.format(
        maxlen=4, depth=3, f="FALSE"), timeout=600)
    ev.extra["deviation_model_counterexample"] = found.violated
    if found.ok:
        raise tlc.TLCError("named deviations of HttpFileImpl no longer "
                           "produce a counterexample")

    # 2. spec -> code
    replay_histories(ev, rep, tier)

    # 3. code -> spec
    rng = random.Random(seed * 7919 + 19)
    traces = []
    nsess = 150 if tier == "quick" else 1500
    for _ in range(nsess):
        cs = rng.choice([1, 2, 3, 4, 5, 8, 16, 64])
        keep = rng.choice([1, 2, 3, 5, 200])
        length = max(0, rng.choice([0, 1, 2, 3, 5, 8, 17]) * cs
                     + rng.choice([-1, 0, 1]))
        traces.append(record_session(rng, length, cs, keep,
                                     rng.randrange(20, 200)))
    sc = tlc.scratch_dir("vp_c19_")
    h5diffs = []
    try:
        for _ in range(6 if tier == "quick" else 40):
            cs = rng.choice([512, 1024, 4096, 2**14])
            keep = rng.choice([1, 2, 3, 8, 200])
            try:
                t, d = h5_session(rng, rng.choice([1, 7, 23, 60]), cs, keep,
                                  sc)
            except Exception as exc:
                rep.violation("h5py over HTTPFile raises " +
                              type(exc).__name__,
                              "cs=%d keep=%d: %r" % (cs, keep, exc),
                              {"cs": cs, "keep": keep})
                continue
            traces.append(t)
            if d:
                h5diffs.append((cs, keep, d))
    finally:
        import shutil
        shutil.rmtree(sc, ignore_errors=True)
    for cs, keep, d in h5diffs:
        rep.violation("dataset over HTTP differs from local",
                      "cs=%d keep=%d: %s" % (cs, keep, d),
                      {"cs": cs, "keep": keep, "diffs": d})
    cfg = TRACE_CFG
    extra = {"NoSet.tla": ""}
    res, ok, rej = tracecheck.validate("MC_HttpFileTrace", cfg, traces,
                                       workers=8)
    ev.add_tlc("MC_HttpFileTrace (%d recorded traces)" % len(traces), res)
    ev.traces += len(ok)
    ev.extra["recorded_traces"] = len(traces)
    ev.extra["recorded_events"] = sum(len(t["ev"]) for t in traces)
    ev.extra["recorded_traces_accepted"] = len(ok)
    for tid, (line, why) in sorted(rej.items()):
        t = traces[tid - 1]
        e = t["ev"][line - 1] if 0 < line <= len(t["ev"]) else {}
        if why == "raised":
            sig = "%s raises" % e.get("a")
        elif e.get("a") == "readall":
            sig = "read(-1) wrong"
        elif e.get("a") == "read" and e.get("n") == 0:
            sig = "read(0) moves position"
        elif why == "bytes":
            sig = "read past end returns wrong bytes"
        else:
            sig = "trace rejected: " + why
        rep.violation(sig, "trace %d line %d: %s (%s)" % (tid, line, e, why),
                      {"trace": {k: t[k] for k in ("len", "cs", "keep")},
                       "prefix": t["ev"][:line]})
    # self-test of the binding: a corrupted field must be rejected
    good = [t for i, t in enumerate(traces, 1)
            if i in ok and any(e["a"] == "read" and e["cnt"] > 0
                               for e in t["ev"])][:5]
    if good:
        import copy
        bad = copy.deepcopy(good)
        for t in bad:
            e = next(e for e in t["ev"] if e["a"] == "read" and e["cnt"] > 0)
            e["from"] += 1
        _, ok2, rej2 = tracecheck.validate("MC_HttpFileTrace", cfg, bad,
                                           workers=2)
        ev.extra["binding_selftest_rejected"] = len(rej2)
        if len(rej2) != len(bad):
            raise tlc.TLCError("binding self-test failed: corrupted traces "
                               "were accepted")
    return rep.finish()
