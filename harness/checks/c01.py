"""C01 - Data written through the writer API is read back exactly.

specs: storage/WriterSpec (oracle), WriterImpl (design: chunk loop, ragged
counter, fixed-width text).
"""
import json
import shutil

import numpy as np

from .. import evidence, findings, gen, par, tlc, tracecheck
from ..shims import import_dclab

PID = "C01"

BASE = """
CONSTANTS
 Feats <- {feats}
 Sizes <- {sizes}
 LogNames <- {logs}
 LineClasses <- AllClasses
 MaxLines = {ml}
 Modes <- AllModes
 C = {c}
 NdFeats <- MCNd
 Ragged <- MCRagged
 WidenText = {wt}
 MaxDepth = {d}
CHECK_DEADLOCK FALSE
"""
DESIGN = ("INIT DInit\nNEXT DNext\nCONSTRAINT Depth\nINVARIANT ReadBack\n"
          "INVARIANT LogsIntact\nINVARIANT NoDuplication\nINVARIANT Ordered\n"
          "PROPERTY AppendOnly\n")
HIST = "INIT HInit\nNEXT HNext\nCONSTRAINT HCon\n"

TABLE = {"a": np.arange(5.0), "b": np.arange(5.0) * 2 - 3}


def line(cls, i):
    if cls == "short":
        return "line %d" % i
    if cls == "exact100":
        s = "exactly one hundred bytes %d " % i
        return s + "x" * (100 - len(s))
    if cls == "long150":
        s = "a line of 150 bytes %d " % i
        return s + "y" * (150 - len(s))
    if cls == "unicode":
        return "µm² × %d ≥ αβγ – ünïcödé ✓" % i
    if cls == "unicode140":
        s = "µm %d °C " % i
        while len(s.encode("utf-8")) < 139:
            s += "µ"
        return s + "x" * (140 - len(s.encode("utf-8")))
    if cls == "bytes":
        return ("bytes line %d" % i).encode("utf-8")
    raise ValueError(cls)


def as_text(x):
    return x.decode("utf-8") if isinstance(x, bytes) else x


def observe(path, feats):
    """content of the file through dclab and, independently, raw h5py"""
    import dclab
    import h5py
    out = {"dclab": {}, "h5py": {}, "logs": {}, "count": None, "table": None}
    with h5py.File(path, "r") as h5:
        ev = h5.get("events", {})
        for f in feats:
            if f.startswith("trace/"):
                # a single trace channel
                ch = f.split("/")[1]
                out["h5py"][f] = gen.decode_trace(ev["trace"][ch][:], ch) \
                    if "trace" in ev and ch in ev["trace"] else []
            elif f not in ev:
                out["h5py"][f] = []
            elif f == "trace":
                out["h5py"][f] = {nm: gen.decode_trace(ev[f][nm][:], nm)
                                  for nm in ev[f]}
            elif f == "contour":
                n = len(ev[f])
                names = sorted(ev[f].keys(), key=int)
                if names != [str(i) for i in range(n)]:
                    out["h5py"][f] = None
                else:
                    out["h5py"][f] = gen.decode_contour(
                        [ev[f][k][:] for k in names])
            elif f == "index":
                out["h5py"][f] = [int(v) for v in ev[f][:]]
            else:
                out["h5py"][f] = gen.decode(f, ev[f][:])
        out["count"] = h5.attrs.get("experiment:event count")
    if any(out["h5py"][f] for f in feats):
        with dclab.new_dataset(path) as ds:
            for f in feats:
                if f.startswith("trace/"):
                    ch = f.split("/")[1]
                    try:
                        out["dclab"][f] = gen.decode_trace(
                            np.asarray(ds["trace"][ch][:]), ch) \
                            if "trace" in ds and ch in ds["trace"] else []
                    except Exception as exc:
                        out["dclab"][f] = "raised " + type(exc).__name__
                elif f in ds.features_innate:
                    try:
                        out["dclab"][f] = gen.read_feature_ids(ds, f) \
                            if f != "index" else [int(v) for v in ds[f][:]]
                    except Exception as exc:
                        out["dclab"][f] = "raised " + type(exc).__name__
                else:
                    out["dclab"][f] = []
            out["logs"] = {k: list(ds.logs[k]) for k in ds.logs.keys()}
            if "tab" in ds.tables:
                t = ds.tables["tab"]
                out["table"] = all(np.array_equal(np.asarray(t[k]).ravel(),
                                                  v) for k, v in TABLE.items())
            out["len"] = len(ds)
    else:
        with h5py.File(path, "r") as h5:
            for k in h5.get("logs", {}):
                out["logs"][k] = [x.decode("utf-8") if isinstance(x, bytes)
                                  else x for x in h5["logs"][k][:]]
    return out


def compare(exp_content, exp_logs, obs, feats):
    """-> None or (signature, detail)"""
    for f in feats:
        want = list(exp_content.get(f, []))
        if f == "index":           # an enumeration, whatever was handed in
            want = list(range(1, len(want) + 1))
        for reader in ("h5py", "dclab"):
            got = obs[reader].get(f, [] if reader == "dclab" else None)
            if f == "trace" and isinstance(got, dict):
                vals = list(got.values()) or [[]]
                if any(v != want for v in vals):
                    return ("%s events differ (%s)" % (f, reader),
                            "%s: got %s want %s" % (f, got, want))
                continue
            if got != want:
                if reader == "dclab" and not obs["dclab"]:
                    continue
                return ("%s events differ (%s)" % (f, reader),
                        "%s: got %s want %s" % (f, got, want))
    for name, lines in exp_logs.items():
        want = [as_text(line(c, i)) for c, i in lines]
        got = obs["logs"].get(name, [])
        if got != want:
            bad = [k for k, (a, b) in enumerate(zip(got, want)) if a != b]
            cls = lines[bad[0]][0] if bad else "count"
            return ("log lines differ (%s line)" % cls,
                    "log %s: got %s want %s" % (name, got[:4], want[:4]))
    lens = {len(exp_content[f]) for f in feats if exp_content.get(f)}
    if len(lens) == 1 and obs["count"] is not None:
        if int(obs["count"]) != lens.pop():
            return ("event count attribute wrong",
                    "count=%s content=%s" % (obs["count"], exp_content))
    if obs.get("table") is False:
        return ("table cells differ", "")
    return None


def _replay(job):
    import os
    from dclab.rtdc_dataset import RTDCWriter, writer
    hist_, root, chunk_bytes = job
    writer.CHUNK_SIZE_BYTES = chunk_bytes
    path = root / ("w%d_%d.rtdc" % (os.getpid(), _replay.n))
    _replay.n += 1
    for rec in hist_:          # an empty TLA+ function prints as []
        if not isinstance(rec["content"], dict):
            rec["content"] = {}
        if not isinstance(rec["logs"], dict):
            rec["logs"] = {}
    feats = sorted(hist_[0]["content"].keys())
    hw = None
    meta_done = False
    viol = None
    steps = []

    def check(rec, i):
        obs = observe(path, feats)
        bad = compare(rec["content"], {k: [tuple(x) for x in v]
                                       for k, v in rec["logs"].items()},
                      obs, feats)
        if bad:
            return (bad[0], "after steps %s: %s" % (steps, bad[1]), i)
        return None
    try:
        for i, rec in enumerate(hist_):
            st = rec["step"]
            a = st["a"]
            if a == "open":
                steps.append("open:" + st["mode"])
                hw = RTDCWriter(path, mode=st["mode"])
                hw.__enter__()
                if not meta_done or st["mode"] == "reset":
                    m = {k: dict(v) for k, v in gen.META.items()}
                    if not any(f_.startswith("trace") for f_ in feats) \
                            and "fl1_max" not in feats:
                        m.pop("fluorescence")
                    hw.store_metadata(m)
                    if "tables" not in hw.h5file or \
                            "tab" not in hw.h5file["tables"]:
                        hw.store_table("tab", TABLE)
                    meta_done = True
            elif a == "store":
                steps.append("%s+%d" % (st["f"], st["n"]))
                ids = list(range(st["first"], st["first"] + st["n"]))
                if st["f"].startswith("trace/"):
                    ch = st["f"].split("/")[1]
                    hw.store_feature("trace", {ch: gen.trace(ids)[ch]})
                else:
                    hw.store_feature(st["f"], gen.encode(st["f"], ids))
            elif a == "storelog":
                steps.append("log:" + ",".join(st["classes"]))
                lines = [line(c, st["first"] + k)
                         for k, c in enumerate(st["classes"])]
                hw.store_log(st["l"], lines)
            elif a == "close":
                steps.append("close")
                hw.__exit__(None, None, None)
                hw = None
                viol = check(rec, i)
                if viol:
                    break
        if hw is not None and viol is None:
            hw.__exit__(None, None, None)
            hw = None
            viol = check(hist_[-1], len(hist_))
    except Exception as exc:
        viol = ("%s raises %s" % (steps[-1].split("+")[0].split(":")[0]
                                  if steps else "?", type(exc).__name__),
                "steps %s: %r" % (steps, exc), len(steps))
    finally:
        if hw is not None:
            try:
                hw.h5file.close()
            except Exception:
                pass
        if path.exists():
            path.unlink()
    return {"chunk_bytes": chunk_bytes, "steps": steps}, viol


_replay.n = 0


TRACE_CFG = """INIT TInit
NEXT TStep
CONSTRAINT Report
CONSTANTS
 Feats <- TFeats
 LogNames <- TLogs
 Modes <- TModes
 Sizes = {1}
 LineClasses = {"short"}
 MaxLines = 1
CHECK_DEADLOCK FALSE
"""
T_FEATS = ("deform", "area_um", "image", "mask", "contour", "trace",
           "fl1_max", "index")
T_LOGS = ("log", "log2")
T_CLASSES = ("short", "exact100", "long150", "unicode", "unicode140",
             "bytes")


def record_session(job):
    """a long random writer session on the real RTDCWriter, recorded as a
    trace for WriterTrace (the file is observed whenever the writer is
    closed)"""
    import os
    import random
    import h5py
    from dclab.rtdc_dataset import RTDCWriter, writer
    sd, root = job
    rng = random.Random(sd)
    writer.CHUNK_SIZE_BYTES = rng.choice([200, 2600])
    path = root / ("t%d_%d.rtdc" % (os.getpid(), sd))
    feats = rng.sample(T_FEATS, rng.choice([2, 3, 4]))
    evs, tok, lines_of = [], 1, {}
    hw, first_open = None, True
    try:
        for _ in range(rng.choice([3, 5, 8])):
            mode = "reset" if first_open else rng.choice(
                ["append", "append", "replace", "reset"])
            e = {"a": "open", "mode": mode, "raised": False}
            evs.append(e)
            hw = RTDCWriter(path, mode=mode)
            hw.__enter__()
            if first_open or mode == "reset":
                m = {k: dict(v) for k, v in gen.META.items()}
                if "trace" not in feats and "fl1_max" not in feats:
                    m.pop("fluorescence")
                hw.store_metadata(m)
            first_open = False
            for _ in range(rng.choice([1, 2, 4])):
                if rng.random() < 0.3:
                    ln = rng.choice(T_LOGS)
                    cls = [rng.choice(T_CLASSES)
                           for _ in range(rng.choice([1, 2, 3]))]
                    e = {"a": "storelog", "l": ln, "classes": cls,
                         "first": tok, "raised": False}
                    evs.append(e)
                    lines = [line(c, tok + k) for k, c in enumerate(cls)]
                    for k, c in enumerate(cls):
                        lines_of[as_text(lines[k])] = [c, tok + k]
                    tok += len(cls)
                    hw.store_log(ln, lines)
                else:
                    f = rng.choice(feats)
                    n = rng.choice([1, 2, 3, 9, 10, 11, 21])
                    e = {"a": "store", "f": f, "n": n, "first": tok,
                         "raised": False}
                    evs.append(e)
                    hw.store_feature(f, gen.encode(f, list(range(tok,
                                                                 tok + n))))
                    tok += n
            e = {"a": "close", "raised": False}
            evs.append(e)
            hw.__exit__(None, None, None)
            hw = None
            obs = observe(path, list(T_FEATS))
            content = {}
            h5lens = set()
            for f in T_FEATS:
                if f == "index":
                    continue
                g0 = obs["h5py"].get(f)
                if isinstance(g0, dict):
                    g0 = (list(g0.values()) or [[]])[0]
                if g0:
                    h5lens.add(len(g0))
            # (dclab's view is defined by the event count: compared only when
            # all stored features have the same number of events)
            cross = len(h5lens) == 1
            idx = obs["h5py"].get("index") or []
            e["indexlen"] = len(idx)
            e["indexok"] = idx == list(range(1, len(idx) + 1))
            for f in T_FEATS:
                if f == "index":
                    content[f] = []
                    continue
                got = obs["h5py"].get(f)
                if isinstance(got, dict):            # trace: per channel
                    vals = list(got.values()) or [[]]
                    got = vals[0] if all(v == vals[0] for v in vals) \
                        else None
                content[f] = [-1] if got is None else [int(t) for t in got]
                via = obs["dclab"].get(f)
                if isinstance(via, dict):
                    vv = list(via.values()) or [[]]
                    via = vv[0] if all(v == vv[0] for v in vv) else None
                if cross and obs["dclab"] and via != got and not (
                        via == [] and got == []):
                    content[f] = [-1]
            e["content"] = content
            e["logs"] = {ln: [lines_of.get(as_text(x), ["?", -1])
                              for x in obs["logs"].get(ln, [])]
                         for ln in T_LOGS}
            lens = {len(v) for v in content.values() if v}
            if e["indexlen"]:
                lens.add(e["indexlen"])
            with h5py.File(path, "r") as h5:
                cnt = h5.attrs.get("experiment:event count")
            if len(lens) == 1 and cnt is not None:
                e["count"], e["stored"] = int(cnt), lens.pop()
            else:
                e["count"] = e["stored"] = 0
    except Exception as exc:
        evs[-1]["raised"] = True
        evs[-1]["exc"] = type(exc).__name__
    finally:
        if hw is not None:
            try:
                hw.h5file.close()
            except Exception:
                pass
        if path.exists():
            path.unlink()
    for e in evs:                 # every record carries every field
        e.setdefault("mode", "")
        e.setdefault("f", "")
        e.setdefault("n", 0)
        e.setdefault("l", "")
        e.setdefault("classes", [])
        e.setdefault("first", 0)
        e.setdefault("content", {f: [] for f in T_FEATS})
        e.setdefault("logs", {ln: [] for ln in T_LOGS})
        e.setdefault("count", 0)
        e.setdefault("stored", 0)
        e.setdefault("indexok", True)
        e.setdefault("indexlen", 0)
    return {"seed": sd, "feats": feats, "ev": evs}


# metadata sessions (WriterMetaSpec): key class -> (section, key,
# {variant: (value handed to store_metadata, value the file must say)})
META_KEYS = {
    "user count": ("user", "count", {1: (3, 3), 2: (3.75, 3.75),
                                     3: ("three", "three")}),
    "user label": ("user", "label", {1: ("a", "a"),
                                     2: ("a longer label with \u00fc",
                                         "a longer label with \u00fc"),
                                     3: (7, 7)}),
    "user mixed": ("user", "mixed", {1: (True, True), 2: (2.5, 2.5),
                                     3: ("text", "text")}),
    "filter min": ("online_filter", "area_um min", {1: (50, 50),
                                                    2: (50.5, 50.5),
                                                    3: (7, 7)}),
    "qpi scale": ("qpi", "scale to filter", {1: (False, False),
                                             2: (2.5, 2.5),
                                             3: (True, True)}),
    "run index": ("experiment", "run index", {1: (1, 1), 2: ("2", 2),
                                              3: (3.0, 3)}),
    "pixel size": ("imaging", "pixel size", {1: (0.34, 0.34), 2: (1, 1.0),
                                             3: ("0.5", 0.5)}),
    "sample": ("experiment", "sample", {1: ("a", "a"),
                                        2: ("a much longer sample name \u00fc",
                                            "a much longer sample name \u00fc"),
                                        3: ("b", "b")}),
}


def _kind(v):
    import numbers
    if isinstance(v, (bool, np.bool_)):
        return "bool"
    if isinstance(v, numbers.Integral):
        return "int"
    if isinstance(v, (float, np.floating)):
        return "float"
    if isinstance(v, (str, bytes)):
        return "str"
    return type(v).__name__


def _meta_replay(job):
    """one WriterMetaSpec history on the real writer; after every close the
    file is opened and every key class compared (value, kind of value,
    documented type; absent where the spec says absent)"""
    import dclab
    import os
    import warnings
    from dclab.rtdc_dataset import RTDCWriter
    hist_, root = job
    d = root / ("m%d_%d" % (os.getpid(), _meta_replay.n))
    _meta_replay.n += 1
    d.mkdir()
    path = d / "m.rtdc"
    steps, viol, hw = [], None, None
    try:
        for i, rec in enumerate(hist_):
            st = rec["step"]
            try:
                if st["a"] == "open":
                    steps.append("open:" + st["mode"])
                    hw = RTDCWriter(path, mode=st["mode"])
                    hw.__enter__()
                    if "events" not in hw.h5file:
                        hw.store_feature("deform", gen.scalar("deform",
                                                              [1, 2, 3]))
                elif st["a"] == "storemeta":
                    steps.append("meta%d:%s" % (st["v"], ",".join(
                        sorted(st["keys"]))))
                    m = {}
                    for kc in st["keys"]:
                        sec, key, vals = META_KEYS[kc]
                        m.setdefault(sec, {})[key] = vals[st["v"]][0]
                    hw.store_metadata(m)
                elif st["a"] == "close":
                    steps.append("close")
                    hw.__exit__(None, None, None)
                    hw = None
                if hw is not None and i < len(hist_) - 1:
                    continue
                if hw is not None:
                    hw.__exit__(None, None, None)
                    hw = None
                with warnings.catch_warnings():
                    warnings.simplefilter("ignore")
                    with dclab.new_dataset(path) as ds:
                        cfg = {sec: dict(ds.config[sec])
                               for sec in ("user", "online_filter", "qpi",
                                           "experiment", "imaging")
                               if sec in ds.config}
            except Exception as exc:
                viol = ("metadata session raises %s" % type(exc).__name__,
                        "steps %s: %r" % (steps, exc), i)
                break
            for kc, v in rec["meta"].items():
                sec, key, vals = META_KEYS[kc]
                present = key in cfg.get(sec, {})
                if v == 0:
                    if present:
                        viol = ("metadata of a discarded file survive a "
                                "reset", "steps %s: %s:%s = %r" % (
                                    steps, sec, key, cfg[sec][key]), i)
                    continue
                want = vals[v][1]
                if not present:
                    viol = ("metadata key missing after store_metadata",
                            "steps %s: %s:%s" % (steps, sec, key), i)
                    break
                got = cfg[sec][key]
                typ = dclab.definitions.get_config_value_type(sec, key)
                if got != want or _kind(got) != _kind(want) or (
                        typ is not None and not isinstance(got, typ)):
                    viol = ("metadata value written over an existing key "
                            "reads back differently" if any(
                                s.startswith("meta") for s in steps[:-1])
                            and sum(1 for s in steps if s.startswith("meta"))
                            > 1 else "metadata value reads back differently",
                            "steps %s: %s:%s wrote %r (%s), read %r (%s)" % (
                                steps, sec, key, vals[v][0], _kind(want), got,
                                _kind(got)), i)
                    break
            if viol:
                break
    finally:
        if hw is not None:
            try:
                hw.__exit__(None, None, None)
            except Exception:
                pass
        shutil.rmtree(d, ignore_errors=True)
    return {"steps": steps}, viol


_meta_replay.n = 0


#: scalar features that are stored as unsigned integers (counts, indices,
#: raw fluorescence maxima); every other scalar feature holds real numbers
INTEGER_TYPED = {"fl1_max", "fl1_npeaks", "fl2_max", "fl2_npeaks", "fl3_max",
                 "fl3_npeaks", "index", "ml_class", "nevents", "frame"}


def _scalar_sweep(job):
    """every scalar feature name of dclab.definitions: real numbers
    (fractions, negative values) written in two append calls are read back
    bit-exactly; integer-typed features keep their integers"""
    import dclab
    import os
    import warnings
    from dclab.rtdc_dataset import RTDCWriter
    names, root = job
    out = []
    for name in names:
        path = root / ("sw%d_%s.rtdc" % (os.getpid(), name))
        k = sum(ord(c_) for c_ in name) % 7
        if name in INTEGER_TYPED:
            a = np.arange(3, 8, dtype=float) * (k + 1)
            b = np.arange(20, 23, dtype=float) + k
        else:
            a = np.array([0.5, -1.25, 3.75, 1e-3, 12345.678]) * (k + 1)
            b = np.array([-0.125, 7.0, 2.5]) - k
        want = np.arange(1, 9, dtype=float) if name == "index" \
            else np.concatenate([a, b])
        try:
            with warnings.catch_warnings():
                warnings.simplefilter("ignore")
                m = {k_: dict(v) for k_, v in gen.META.items()}
                with RTDCWriter(path, mode="reset") as hw:
                    hw.store_metadata(m)
                    hw.store_feature(name, a)
                    hw.store_feature(name, b)
                with dclab.new_dataset(path) as ds:
                    got = np.asarray(ds[name][:], dtype=float) \
                        if name in ds.features_innate else None
            if got is None:
                out.append((name, "stored scalar feature is not offered as "
                            "stored", ""))
            elif not np.array_equal(got, want):
                out.append((name, "scalar feature values differ after two "
                            "appends (%s-valued feature)" % (
                                "integer" if name in INTEGER_TYPED
                                else "real"), "%s: wrote %s read %s" % (
                                    name, want.tolist(), got.tolist())))
        except Exception as exc:
            out.append((name, "storing a scalar feature raises %s"
                        % type(exc).__name__, "%s: %r" % (name, exc)))
        finally:
            if path.exists():
                path.unlink()
    return len(names), out


def main(tier, seed, replay=None):
    import_dclab()
    ev = evidence.Evidence(PID, tier, seed)
    rep = findings.Reporter(PID, ev)
    ev.rule = ("every history of WriterSpec (open in append/replace/reset, "
               "store n events of a feature with n straddling the chunk "
               "length, store log lines of 5 classes, close/re-open) up to "
               "the depth bound is enumerated by TLC and executed on the real "
               "RTDCWriter with the chunk length forced to 10 (and 13 in "
               "thorough); after every close the file is read with dclab and "
               "with raw h5py and every event/line is decoded back to its "
               "token (bit-exact) and compared with the specified content. "
               "non-trivial = at least two store calls; distinct by hash.")
    ev.assumptions = ["compression filters are lossless (h5py/hdf5plugin)",
                      "metadata: eight key classes with three payload "
                      "variants of different Python types (WriterMetaSpec); "
                      "the full type/representation table is the C11 check"]
    # 1. design level
    q = tier == "quick"
    ok = tlc.run("MC_Writer", DESIGN + BASE.format(
        feats="FeatsA", sizes="SizesD", logs="NoLogs", ml=1, c=3, wt="TRUE",
        d=5 if q else 6), timeout=3000)
    ev.add_tlc("MC_Writer design: chunk loop + ragged counter", ok)
    ok2 = tlc.run("MC_Writer", DESIGN + BASE.format(
        feats="NoFeats", sizes="NoSizes", logs="Logs1", ml=2, c=3, wt="TRUE",
        d=5 if q else 6), timeout=3000)
    ev.add_tlc("MC_Writer design: fixed-width text (WidenText)", ok2)
    if not (ok.ok and ok2.ok):
        raise tlc.TLCError("WriterImpl violates %s\n%s" % (
            ok.violated or ok2.violated, ok.cex or ok2.cex))
    bad = tlc.run("MC_Writer", DESIGN + BASE.format(
        feats="NoFeats", sizes="NoSizes", logs="Logs1", ml=1, c=3,
        wt="FALSE", d=5), timeout=900)
    ev.extra["deviation_model_counterexample"] = bad.violated
    if bad.ok:
        raise tlc.TLCError("frozen text width no longer yields a "
                           "counterexample")
    # 2. spec -> code
    root = tlc.scratch_dir("vp_c01_")
    try:
        plans = [("FeatsA", "NoLogs", 1), ("FeatsB", "NoLogs", 1),
                 ("FeatsC", "NoLogs", 1), ("FeatsD", "NoLogs", 1),
                 ("FeatsE", "NoLogs", 1),
                 ("NoFeats", "Logs1", 1)]
        for feats, logs, ml in plans:
            islog = feats == "NoFeats"
            d = (4 if q else 5) if islog else (5 if q else 6)
            res = tlc.run("MC_Writer", HIST + BASE.format(
                feats=feats, sizes="NoSizes" if islog else (
                    "SizesQ" if q else "SizesT"),
                logs=logs, ml=ml, c=10, wt="TRUE", d=d), workers=8,
                timeout=3000)
            ev.add_tlc("MC_Writer histories %s%s depth %d" % (feats, logs, d),
                       res)
            hs = res.tagged("H")
            if len(hs) > (6000 if q else 40000):
                k = len(hs) // (6000 if q else 40000) + 1
                hs = par.sample(hs, k, seed)
            cfgs = [200] if q else [200, 2600]
            jobs = [(h, root, cb) for h in hs for cb in cfgs]
            for case, viol in par.pmap(_replay, jobs, chunk=60):
                ev.traces += 1
                ev.case(case, nontrivial=sum(
                    1 for s in case["steps"]
                    if "+" in s or s.startswith("log:")) >= 2)
                if viol:
                    rep.violation(viol[0], viol[1], case, size=viol[2])
        # 2b. metadata sessions (WriterMetaSpec): last write wins, key by key
        dm = 5 if q else 6
        mres = tlc.run("WriterMetaSpec", "INIT MInit\nNEXT MNext\n"
                       "CONSTRAINT HCon\nPROPERTY LastWriteWins\n"
                       "PROPERTY NeverLost\nCONSTANTS\n Keys <- MCKeys\n"
                       " Variants = {1, 2, 3}\n KeySets <- MCKeySets\n"
                       " Modes <- AllModes\n MaxDepth = %d\n"
                       "CHECK_DEADLOCK FALSE\n" % dm, workers=4,
                       timeout=3000)
        ev.add_tlc("WriterMetaSpec sessions depth %d" % dm, mres)
        if not mres.ok:
            raise tlc.TLCError("WriterMetaSpec violates %s" % mres.violated)
        # (streamed: depth 6 prints about 800,000 histories)
        import zlib
        kq = 25 if q else 30
        mh = [h_ for h_ in mres.iter_tagged("H", consume=True)
              if zlib.crc32(json.dumps(h_, sort_keys=True).encode()) % kq
              == seed % kq]
        ev.extra["metadata_sessions"] = len(mh)
        for case, viol in par.pmap(_meta_replay, [(h, root) for h in mh],
                                   chunk=40):
            ev.traces += 1
            ev.case(case, nontrivial=sum(1 for s_ in case["steps"]
                                         if s_.startswith("meta")) >= 2)
            if viol:
                rep.violation(viol[0], viol[1], case, size=viol[2])
        # 2c. every scalar feature name: real numbers survive two appends
        from dclab import definitions as dfn
        allsc = sorted(f for f in dfn.scalar_feature_names
                       if f not in ("time",))
        chunks = [allsc[i::16] for i in range(16)]
        nsw = 0
        for cnt, viols in par.pmap(_scalar_sweep, [(c_, root) for c_ in chunks
                                                   if c_], chunk=1):
            nsw += cnt
            ev.traces += cnt
            for name, sig, detail in viols:
                rep.violation(sig, detail, {"feature": name}, size=1)
        ev.extra["scalar_features_swept"] = nsw
        # 3. code -> spec: long random sessions judged by TLC (WriterTrace)
        nses = 150 if q else 600
        recs = par.pmap(record_session,
                        [(seed * 100003 + i, root) for i in range(nses)],
                        chunk=10)
        res3, okset, rej = tracecheck.validate("WriterTrace", TRACE_CFG, recs,
                                               workers=8, timeout=3000)
        ev.add_tlc("WriterTrace (%d recorded sessions)" % len(recs), res3)
        ev.traces += len(okset)
        ev.extra["recorded_sessions"] = len(recs)
        ev.extra["recorded_sessions_accepted"] = len(okset)
        for tid, (ln, why) in sorted(rej.items()):
            r = recs[tid - 1]
            e = r["ev"][ln - 1] if 0 < ln <= len(r["ev"]) else {}
            rep.violation("recorded session rejected: %s%s" % (
                why, " (%s)" % e.get("exc") if why == "raised" else ""),
                "seed %s line %d: %s" % (r["seed"], ln, str(e)[:300]), r,
                size=ln)
        # binding self-test: a corrupted observation must be rejected
        bad = [json.loads(json.dumps(r)) for r in recs[:20]]
        n_bad = 0
        for r in bad:
            closes = [e for e in r["ev"] if e["a"] == "close"
                      and any(e["content"].values())]
            if closes:
                f = [k for k, v in closes[-1]["content"].items() if v][0]
                closes[-1]["content"][f] = closes[-1]["content"][f][:-1]
                n_bad += 1
            else:
                r["ev"] = []
        _, ok_b, _ = tracecheck.validate("WriterTrace", TRACE_CFG, bad,
                                         workers=4, timeout=900)
        accepted_bad = [i for i, r in enumerate(bad, 1)
                        if r["ev"] and i in ok_b and any(
                            e["a"] == "close" and any(e["content"].values())
                            for e in r["ev"])]
        ev.extra["binding_selftest_corrupted"] = n_bad
        if accepted_bad:
            raise tlc.TLCError("WriterTrace accepted corrupted traces %s"
                               % accepted_bad)
    finally:
        shutil.rmtree(root, ignore_errors=True)
    return rep.finish()
