"""C06 - Computed (ancillary) features reflect the current data and settings.

spec: dataset/AncillarySpec (history-free meaning of a read; availability;
scenario-C law).
"""
import numpy as np

from .. import evidence, findings, lut, par, tlc
from ..shims import import_dclab

PID = "C06"
CFG = ("INIT HInit\nNEXT HNext\nCONSTRAINT HCon\nCONSTANTS\n Keys <- MCKeys\n"
       " Vals <- MCVals\n Deletable <- MCDeletable\n Presets <- MCPresets\n"
       " TempVers <- MCTempVers\n Feats <- MCFeats\n MaxDepth = {d}\n"
       "CHECK_DEADLOCK FALSE\n")
FEATS = ("emodulus", "time", "fl1_max_ctc", "area_ratio", "verif_plug_area",
         "verif_plug_time", "ml_class")
# which features an observation reads, and in which order, is free (a read
# returns Fresh whatever was read before): chosen per history
COMPUTED_AREA = [False]     # variant: area_um computed from area_cvx
PAIR13 = [False]            # variant: channels 1 and 3 only; the abstract key
                            # "ct21" is the coefficient "crosstalk fl13"


def keymap(k):
    if PAIR13[0] and k == "ct21":
        return ("calculation", "crosstalk fl13", float)
    return KEYMAP[k]


def register_plugins():
    from dclab.rtdc_dataset.feat_anc_plugin import plugin_feature as pf
    from dclab.rtdc_dataset.feat_anc_core import AncillaryFeature
    if "verif_plug_area" in AncillaryFeature.feature_names:
        return
    pf.PlugInFeature("verif_plug_area", {
        "method": lambda ds: {"verif_plug_area": 2 * np.asarray(
            ds["area_um"][:], dtype=float)},
        "feature names": ["verif_plug_area"],
        "features required": ["area_um"], "scalar feature": [True]})
    pf.PlugInFeature("verif_plug_time", {
        "method": lambda ds: {"verif_plug_time": 3 + np.asarray(
            ds["time"][:], dtype=float)},
        "feature names": ["verif_plug_time"],
        "features required": ["time"], "scalar feature": [True]})
LUT_ID = "VERIF-2D-LAT-01"
KEYMAP = {"lut": ("calculation", "emodulus lut", lambda v: LUT_ID),
          "medium": ("calculation", "emodulus medium", str),
          "temperature": ("calculation", "emodulus temperature", float),
          "viscosity": ("calculation", "emodulus viscosity", float),
          "model": ("calculation", "emodulus viscosity model", str),
          "pixel": ("imaging", "pixel size", float),
          "framerate": ("imaging", "frame rate", float),
          "ct21": ("calculation", "crosstalk fl21", float),
          "ct31": ("calculation", "crosstalk fl31", float)}
N = 12


def base_data():
    rs = np.random.RandomState(6)
    return {"area_um": rs.rand(N) * 150 + 30, "deform": rs.rand(N) * 0.1 + .01,
            "frame": np.arange(N) * 7 + 100,
            "fl1_max": rs.rand(N) * 100 + 10, "fl2_max": rs.rand(N) * 80 + 5,
            "fl3_max": rs.rand(N) * 60 + 5,
            "area_cvx": rs.rand(N) * 150 + 40, "area_msd": rs.rand(N) * 140
            + 30}


TEMP = {1: np.linspace(21, 24, N), 2: np.linspace(27, 33, N)}
# the temporary features come as a set: the temperature and two ML scores
# (version 2 swaps the scores, so the ML class of every event changes)
ML = {1: (np.linspace(0.9, 0.6, N), np.linspace(0.1, 0.4, N)),
      2: (np.linspace(0.1, 0.4, N), np.linspace(0.9, 0.6, N))}


# ... and temporary features named like two computed features: a temporary
# feature takes precedence over a computed one, whether or not the computed
# one has been read (and cached) before
OVER = {"time": {1: np.linspace(1.0, 2.0, N), 2: np.linspace(5.0, 9.0, N)},
        "area_ratio": {1: np.linspace(1.01, 1.3, N),
                       2: np.linspace(1.5, 1.9, N)}}


def set_temp_features(ds, ver):
    import dclab
    ds._usertemp["temp"] = TEMP[ver]
    for f_ in OVER:
        dclab.set_temporary_feature(ds, f_, OVER[f_][ver])
    dclab.set_temporary_feature(ds, "ml_score_abc", ML[ver][0])
    dclab.set_temporary_feature(ds, "ml_score_xyz", ML[ver][1])


def apply_state(ds, cfg, temp):
    import dclab
    for k, val in cfg.items():
        sec, key, conv = keymap(k)
        if val == "absent":
            ds.config[sec].pop(key, None)
        else:
            ds.config[sec][key] = conv(val)
    if temp:
        set_temp_features(ds, temp)
    else:
        ds._usertemp.pop("temp", None)


TWOCHAN = [False]


def new_ds(cfg, temp):
    import dclab
    data = base_data()
    if TWOCHAN[0]:
        data.pop("fl3_max")
    if PAIR13[0]:
        data.pop("fl2_max")
    if COMPUTED_AREA[0]:
        data.pop("area_um")
    ds = dclab.new_dataset(data)
    ds.config["setup"]["flow rate"] = 0.04
    ds.config["setup"]["channel width"] = 20.0
    ds.config["setup"]["chip region"] = "channel"
    ds.config["calculation"]["crosstalk fl12"] = 0.02
    if not PAIR13[0]:
        ds.config["calculation"]["crosstalk fl13"] = 0.11
    if not TWOCHAN[0]:
        ds.config["calculation"]["crosstalk fl32"] = 0.03
        ds.config["calculation"]["crosstalk fl23"] = 0.04
    apply_state(ds, cfg, temp)
    return ds


def read(ds, f):
    import warnings
    try:
        has = f in ds
    except (KeyboardInterrupt, SystemExit):
        raise
    except BaseException as exc:
        has = "raised " + type(exc).__name__
    try:
        with warnings.catch_warnings():
            warnings.simplefilter("ignore")
            v = np.array(ds[f][:], dtype=float, copy=True)
        out = ("ok", v)
    except KeyError:
        out = ("missing", None)
    except (KeyboardInterrupt, SystemExit):
        raise
    except BaseException as exc:      # some dclab errors are BaseException
        out = ("raised", type(exc).__name__)
    return has, out


def reference_emodulus(ds, cfg, temp, scenario):
    """the Young's modulus of the documented scenario, computed with
    dclab.features.emodulus.get_emodulus on the dataset's own inputs"""
    import warnings
    from dclab.features.emodulus import get_emodulus
    kw = dict(area_um=np.array(ds["area_um"][:], dtype=float),
              deform=np.array(ds["deform"][:], dtype=float),
              channel_width=20.0, flow_rate=0.04,
              px_um=float(cfg["pixel"]), lut_data=LUT_ID)
    if scenario == "B":
        kw.update(medium=float(cfg["viscosity"]), temperature=None,
                  visc_model=None)
    else:
        kw.update(medium=cfg["medium"],
                  visc_model=cfg["model"] if cfg["model"] != "absent"
                  else "herold-2017",
                  temperature=float(cfg["temperature"]) if scenario == "C"
                  else TEMP[temp])
    with warnings.catch_warnings():
        warnings.simplefilter("ignore")
        return np.asarray(get_emodulus(**kw), dtype=float)


def same(a, b):
    if a[0] != b[0]:
        return False
    if a[0] == "ok":
        return np.array_equal(a[1], b[1], equal_nan=True)
    return a[1] == b[1]


_FRESH = {}


def fresh(cfg, temp, f):
    key = (tuple(sorted(cfg.items())), temp, f, TWOCHAN[0], COMPUTED_AREA[0],
           PAIR13[0])
    if key not in _FRESH:
        _FRESH[key] = read(new_ds(cfg, temp), f)
    return _FRESH[key]


def descr(cfg, temp):
    on = sorted(k for k, v in cfg.items()
                if v != "absent" and k not in ("pixel", "framerate"))
    return "+".join(on) + ("+temp" if temp else "")


def _replay(job):
    import zlib
    case, variant = job
    TWOCHAN[0] = variant == "two"
    PAIR13[0] = variant == "pair13"
    COMPUTED_AREA[0] = variant == "area"
    two = TWOCHAN[0]
    crc = zlib.crc32(repr((case["init"], case["h"], variant)).encode())
    rot = crc % len(FEATS)
    order = FEATS[rot:] + FEATS[:rot]
    if crc % 3 == 0:
        order = order[:1]
    cfg0, temp0 = case["init"]["cfg"], case["init"]["temp"]
    ds = new_ds(cfg0, temp0)
    out = []
    steps = []
    # a quarter of the histories also observe through a hierarchy child that
    # was created at the start, has read the features once and is refreshed
    # before every observation
    child = None
    if crc % 4 == 1:
        import dclab
        child = dclab.new_dataset(ds)
        for f in order:
            read(child, f)
    for i, st in enumerate(case["h"]):
        state = st["state"]
        if st["a"] == "set":
            steps.append("set %s=%s" % (st["k"], st["v"]))
            sec, key, conv = keymap(st["k"])
            ds.config[sec][key] = conv(st["v"])
        elif st["a"] == "del":
            steps.append("del %s" % st["k"])
            sec, key, _ = keymap(st["k"])
            ds.config[sec].pop(key)
        else:
            steps.append("settemp %s" % st["ver"])
            set_temp_features(ds, st["ver"])
        if not state["observe"]:
            continue
        if child is not None:
            child.rejuvenate()
            for f in order:
                chas, cgot = read(child, f)
                _, cwant = fresh(state["cfg"], state["temp"], f)
                if not same(cgot, cwant):
                    out.append(("%s of a refreshed hierarchy child differs "
                                "from a fresh dataset after %s" % (
                                    f, st["a"] + " " + st.get("k", "temp")),
                                "steps %s from %s" % (steps, descr(cfg0,
                                                                   temp0)),
                                i))
        for f in order:
            has, got = read(ds, f)
            fhas, want = fresh(state["cfg"], state["temp"], f)
            ctx = "%s, keys %s" % (st["a"] + " " + st.get("k", "temp"),
                                   descr(state["cfg"], state["temp"]))
            if state["temp"] and f in OVER and not (
                    got[0] == "ok" and np.array_equal(
                        got[1], OVER[f][state["temp"]])):
                out.append(("a temporary feature named %s does not take "
                            "precedence over the computed one" % f,
                            "steps %s from %s: got %s" % (
                                steps, descr(cfg0, temp0), str(got)[:80]),
                            i))
            elif not same(got, want):
                out.append(("%s differs from a fresh dataset after %s" % (
                    f, st["a"] + " " + st.get("k", "temp")),
                    "steps %s from %s: got %s fresh %s" % (
                        steps, descr(cfg0, temp0), str(got)[:80],
                        str(want)[:80]), i))
            elif has is not True and has is not False:
                out.append(("availability test of %s raises" % f, ctx, i))
            elif has != (got[0] == "ok"):
                c = state["cfg"]
                if f == "emodulus" and c["viscosity"] != "absent" \
                        and c["medium"] not in ("absent", "other"):
                    why = "known medium and 'emodulus viscosity' both set"
                elif f.endswith("_ctc"):
                    why = "three fl channels, crosstalk matrix incomplete"
                else:
                    why = "keys " + descr(c, state["temp"])
                out.append(("%s reported %s but reading %s (%s; %s)" % (
                    f, "available" if has else "unavailable",
                    {"ok": "succeeds", "missing": "raises KeyError",
                     "raised": "raises " + str(got[1])}[got[0]],
                    "a fresh dataset behaves the same" if fhas == has
                    else "a fresh dataset differs", why),
                    ctx + " steps %s from %s" % (steps, descr(cfg0, temp0)),
                    i))
            if f == "emodulus" and state.get("scenario") in ("A", "B", "C",
                                                             "none"):
                # the scenario the documentation prescribes, computed with
                # the function behind the feature
                sc = state["scenario"]
                if sc == "none":
                    if got[0] == "ok":
                        out.append(("emodulus is computed although no "
                                    "scenario applies", ctx, i))
                else:
                    ref = reference_emodulus(ds, state["cfg"], state["temp"],
                                             sc)
                    if got[0] != "ok" or not np.allclose(
                            got[1], ref, rtol=1e-12, atol=0, equal_nan=True):
                        out.append(("emodulus does not follow scenario %s "
                                    "(%s)" % (sc, "not available" if got[0]
                                              != "ok" else "other values"),
                                    ctx + " steps %s from %s" % (
                                        steps, descr(cfg0, temp0)), i))
            if f == "emodulus" and state["cIgnoresTemp"] and got[0] == "ok" \
                    and same(got, want):
                w2 = fresh(state["cfg"], 0, f)[1]
                if not same(got, w2):
                    out.append(("scenario C uses the temp feature", ctx, i))
    return {"init": descr(cfg0, temp0), "steps": steps,
            "fl_channels": 2 if two else 3, "reads": list(order),
            "area_um": "computed" if COMPUTED_AREA[0] else "stored"}, out


RO_CFG = ("INIT Init\nNEXT Next\nCONSTRAINT Emit\nINVARIANT HistoryFree\n"
          "CONSTANTS\n Feats <- MCFeats\n Group <- MCGroup\n MaxReads = {d}\n"
          "CHECK_DEADLOCK FALSE\n")
RO_FEATS = ("bright_avg", "bright_sd", "bright_perc_10", "bright_perc_90")


def _ro_files(root, provided):
    """a file with image+mask and a basin that offers `provided` with its own
    (token) values"""
    from .. import gen
    from dclab.rtdc_dataset import RTDCWriter
    tag = "_".join(sorted(provided)) or "none"
    d = root / ("ro_" + tag)
    if not d.exists():
        d.mkdir()
        ids = list(range(1, 7))
        gen.write_rtdc(d / "basin.rtdc", ids,
                       feats=("deform",) + tuple(sorted(provided)))
        gen.write_rtdc(d / "main.rtdc", ids,
                       feats=("deform", "area_um", "image", "image_bg", "mask"))
        if provided:
            with RTDCWriter(d / "main.rtdc", mode="append") as hw:
                hw.store_basin("twin", "file", "hdf5",
                               [str(d / "basin.rtdc")],
                               basin_feats=sorted(provided))
    return d / "main.rtdc"


def _ro_replay(job):
    import dclab
    from .. import gen
    case, root = job
    provided = sorted(case["provided"])
    path = _ro_files(root, provided)
    out = []
    with dclab.new_dataset(path) as ds:
        for i, rd in enumerate(case["reads"]):
            f = rd["f"]
            got = np.array(ds[f][:], dtype=float)
            with dclab.new_dataset(path) as fr:
                want = np.array(fr[f][:], dtype=float)
            if rd["from"] == "basin" and not np.array_equal(
                    want, gen.scalar(f, list(range(1, 7)))):
                out.append(("a fresh dataset does not take a basin-provided "
                            "feature from the basin", f, i))
            if not np.array_equal(got, want, equal_nan=True):
                before = [r["f"] for r in case["reads"][:i]]
                out.append(("%s feature differs from a fresh dataset after "
                            "another feature of the same recipe was read" % (
                                "basin-provided" if rd["from"] == "basin"
                                else "computed"),
                            "%s after reading %s (basin offers %s)" % (
                                f, before, provided), i))
    return {"provided": provided, "reads": [r["f"] for r in case["reads"]]}, \
        out


def main(tier, seed, replay=None):
    import_dclab()
    ev = evidence.Evidence(PID, tier, seed)
    rep = findings.Reporter(PID, ev)
    ev.rule = ("histories of AncillarySpec: from 6 preset configurations "
               "(empty, scenarios A/B/C complete, everything set) x temp "
               "feature absent/v1/v2, every sequence of up to MaxDepth edits "
               "(set/change/delete a [calculation]/[imaging] key, set/replace "
               "the temp feature), each followed or not by reading and "
               "availability-testing a per-history choice (one feature, or all "
               "in a rotated order) of emodulus, time, fl1_max_ctc, "
               "area_ratio and two plug-in features that depend on the "
               "computed area_um / time (area_um stored or computed); "
               "every read is compared with a freshly constructed dataset "
               "holding the same data and the current configuration, `in` "
               "with whether the read succeeds, and scenario C with the same "
               "state without temp. non-trivial = at least one key of the "
               "emodulus scenarios present.")
    ev.rule += (" Plus ReadOrderSpec: file-based dataset with image and mask "
                "and a basin offering any subset of the brightness features "
                "with its own values x every sequence of reads; every read "
                "equals the read of a freshly opened dataset.")
    ev.assumptions = ["in-memory datasets for the configuration histories; "
                      "hierarchy children are covered by C04 (root config "
                      "change)"]
    q = tier == "quick"
    d = 2 if q else 3
    scratch = tlc.scratch_dir("vp_c06_")
    lut.register_small(scratch, LUT_ID)     # a 10^4-node LUT costs 1 s/read
    res = tlc.run("MC_Ancillary", CFG.format(d=d), workers=8, timeout=3000)
    ev.add_tlc("MC_Ancillary histories depth %d" % d, res)
    cases = res.tagged("H")
    if not q and len(cases) > 150000:
        cases = par.sample(cases, len(cases) // 150000 + 1, seed)
    register_plugins()
    jobs = [(c, "plain") for c in cases]
    jobs += [(c, "two") for c in cases
             if any(st.get("k", "").startswith("ct") for st in c["h"])]
    jobs += [(c, "pair13") for c in cases
             if any(st.get("k", "").startswith("ct") for st in c["h"])]
    jobs += [(c, "area") for c in cases
             if any(st.get("k", "") in ("pixel", "framerate")
                    for st in c["h"])]
    for case, viols in par.pmap(_replay, jobs, chunk=100):
        ev.traces += 1
        ev.case(case, nontrivial=case["init"] != "")
        for sig, detail, i in viols:
            rep.violation(sig, detail, case, size=i)
    # reads in between: computed vs. basin-provided features of one recipe
    res3 = tlc.run("ReadOrderSpec", RO_CFG.format(d=2 if q else 3),
                   workers=4, timeout=600)
    if not res3.ok:
        raise tlc.TLCError("ReadOrderSpec: %s" % res3.violated)
    ev.add_tlc("ReadOrderSpec read histories", res3)
    seen, ro = set(), []
    for c in res3.tagged("H"):
        if str(c) not in seen:
            seen.add(str(c))
            ro.append(c)
    for p in sorted({tuple(sorted(c["provided"])) for c in ro}):
        _ro_files(scratch, p)             # build before forking
    for case, viols in par.pmap(_ro_replay, [(c, scratch) for c in ro],
                                chunk=16):
        ev.traces += 1
        ev.case(case, nontrivial=bool(case["provided"]))
        for sig, detail, i in viols:
            rep.violation(sig, detail, case, size=i)
    import shutil
    shutil.rmtree(scratch, ignore_errors=True)
    return rep.finish()
