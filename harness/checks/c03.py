"""C03 - The combined event filter equals the specification of the settings.

specs: dataset/FilterSpec (oracle), FilterImpl (design), FilterTrace.
"""
import json
import random
import zlib

import numpy as np

from .. import evidence, findings, hist, par, tlc, tracecheck
from ..shims import import_dclab

PID = "C03"
FEAT = {"f1": "deform", "f2": "area_um"}
NAN, PINF, NINF = 99, 50, -50

BASE = """
CONSTANTS
 NOf <- MCNOf
 Feats <- MCFeats
 Insts <- MCInsts
 DataOf <- MCDataOf
 RangePairs <- MCRangePairs
 Polys <- MCPolys
 PolyAxes <- MCPolyAxes
 PolyVers <- MCPolyVers
 Inside <- MCInside
 Limits <- MCLimits
 MaxDepth = {d}
 Alternate = {alt}
 DiffOldKeys = {fix}
CHECK_DEADLOCK FALSE
"""
IMPL = ("INIT MCImplInit\nNEXT MCImplNext\nCONSTRAINT Depth\n"
        "INVARIANT SelectionCorrect\nINVARIANT TypeOK\n"
        "INVARIANT AppliedSound\n")
HIST = "INIT HInit\nNEXT HNext\nCONSTRAINT HCon\nINVARIANT TypeOK\n"
TRACE = """
INIT TInit
NEXT TStep
CONSTANTS
 NOf <- TNOf
 Feats <- TFeats
 Insts <- TInsts
 DataOf <- TDataOf
 RangePairs = {}
 Polys <- TPolys
 PolyAxes <- TPolyAxes
 PolyVers <- TPolyVers
 Inside <- TInside
 Limits = {}
CONSTRAINT Report
CHECK_DEADLOCK FALSE
"""

INST_DATA = {
    1: {"f1": [0, 1, 2, 3], "f2": [3, 1, 1, 0]},
    2: {"f1": [1, NAN, 2, PINF], "f2": [2, 2, NINF, 1]},
    3: {"f1": [1, 1, 2, 2], "f2": [NAN, 0, 3, 3]},
}
# polygon vertices on half-integers (grid points never on a boundary)
POLY_PTS = {
    (1, 1): [(0.5, 0.5), (2.5, 0.5), (2.5, 3.5), (0.5, 3.5)],
    (1, 2): [(-0.5, -0.5), (1.5, -0.5), (1.5, 1.5), (-0.5, 1.5)],
    (2, 1): [(-0.5, -0.5), (3.5, -0.5), (3.5, 1.5), (1.5, 1.5), (1.5, 3.5),
             (-0.5, 3.5)],
    (2, 2): [(1.5, -0.5), (3.5, -0.5), (3.5, 3.5), (1.5, 3.5)],
}
POLY_AXES = {1: ("f1", "f2"), 2: ("f2", "f1")}


def decode(v, scale=1.0):
    if v == NAN:
        return np.nan
    if v == PINF:
        return np.inf
    if v == NINF:
        return -np.inf
    return v / scale


class Session:
    """A real dataset plus its polygon filter objects, driven by abstract
    actions; all reads go through the public API."""

    def __init__(self, data, poly_pts, scale=1.0):
        import dclab
        from dclab.polygon_filter import PolygonFilter
        self.scale = scale
        PolygonFilter.clear_all_filters()
        arrs = {FEAT[f]: np.array([decode(v, scale) for v in vals],
                                  dtype=float)
                for f, vals in data.items()}
        self.ds = dclab.new_dataset(arrs)
        self.poly_pts = poly_pts
        self.pf = {}
        for p in (1, 2):
            ax = POLY_AXES[p]
            self.pf[p] = PolygonFilter(axes=(FEAT[ax[0]], FEAT[ax[1]]),
                                       points=poly_pts[(p, 1)])
        self.n = len(self.ds)

    def edit(self, a, arg):
        cfg = self.ds.config["filtering"]
        s = self.scale
        if a == "setrange":
            cfg[FEAT[arg[0]] + " min"] = arg[1] / s
            cfg[FEAT[arg[0]] + " max"] = arg[2] / s
        elif a == "rmrange":
            cfg.pop(FEAT[arg[0]] + " min")
            cfg.pop(FEAT[arg[0]] + " max")
        elif a == "addpoly":
            self.ds.polygon_filter_add(self.pf[arg[0]])
        elif a == "rmpoly":
            self.ds.polygon_filter_rm(self.pf[arg[0]])
        elif a == "modpoly":
            self.pf[arg[0]].points = np.array(
                self.poly_pts[(arg[0], arg[1])], dtype=float)
        elif a == "invpoly":
            self.pf[arg[0]].inverted = not self.pf[arg[0]].inverted
        elif a == "toginvalid":
            cfg["remove invalid events"] = not cfg["remove invalid events"]
        elif a == "addfeature":
            # a scalar (temporary) feature with invalid values at every
            # second event arrives on the open dataset
            import dclab
            from dclab import definitions as dfn
            if not dfn.feature_exists("verif_extra"):
                dclab.register_temporary_feature("verif_extra")
            n_ = len(self.ds)
            vals = np.arange(n_, dtype=float) + 1.0
            vals[1::2] = [np.nan, np.inf, -np.inf][n_ % 3]
            dclab.set_temporary_feature(self.ds, "verif_extra", vals)
        elif a == "togenable":
            cfg["enable filters"] = not cfg["enable filters"]
        elif a == "setlimit":
            cfg["limit events"] = arg[0]
        elif a == "manual":
            m = self.ds.filter.manual
            m[arg[0] - 1] = not m[arg[0] - 1]
        elif a == "reset":
            self.ds.reset_filter()
        else:
            raise ValueError(a)

    def settings(self):
        """project the observable settings to the spec vocabulary"""
        cfg = self.ds.config["filtering"]
        s = self.scale
        rg = {}
        for f, name in FEAT.items():
            has = (name + " min") in cfg and (name + " max") in cfg
            rg[f] = {"set": bool(has),
                     "lo": int(round(cfg[name + " min"] * s)) if has else 0,
                     "hi": int(round(cfg[name + " max"] * s)) if has else 0}
        ids = {pf.unique_id: p for p, pf in self.pf.items()}
        return {"ranges": rg,
                "polys": sorted(ids[i] for i in cfg["polygon filters"]),
                "inv": bool(cfg["remove invalid events"]),
                "enable": bool(cfg["enable filters"]),
                "limit": int(cfg["limit events"]),
                "manual": [int(i) + 1 for i in
                           np.flatnonzero(~self.ds.filter.manual)]}

    def apply(self, force):
        if force:
            self.ds.apply_filter(force=list(FEAT.values()))
        else:
            self.ds.apply_filter()
        return [int(i) + 1 for i in np.flatnonzero(self.ds.filter.all)]


def norm_settings(s):
    return {"ranges": {f: {k: (bool(v) if k == "set" else int(v))
                           for k, v in s["ranges"][f].items()}
                       for f in s["ranges"]},
            "polys": sorted(s["polys"]), "inv": s["inv"],
            "enable": s["enable"], "limit": s["limit"],
            "manual": sorted(s["manual"])}


def sched_key(st):
    return (st["a"], tuple(st["arg"]))


def exp_obs(st):
    if st["a"] == "apply":
        return {"expected": sorted(st["expected"]),
                "required": st["required"]}
    return {"settings": norm_settings(st["settings"])}


def match(exp, obs):
    if "raised" in obs:
        return False
    if "all" in obs:
        return ("expected" in exp and set(obs["all"]) <= set(exp["expected"])
                and len(obs["all"]) == exp["required"])
    return "settings" in exp and exp["settings"] == obs["settings"]


def signature(prev_edits, step, obs, exp):
    """abstract description of the failing step"""
    if "raised" in obs:
        return "%s raises %s" % (step["a"], obs["raised"])
    if step["a"] != "apply":
        return "settings differ after " + step["a"]
    last_edit = prev_edits[-1]["a"] if prev_edits else "nothing"
    extra = set(obs["all"]) - set(exp[0]["expected"])
    kind = ("selects excluded event" if extra else
            "wrong number selected" if len(obs["all"]) != exp[0]["required"]
            else "mismatch")
    return "apply after %s: %s" % (last_edit, kind)


def _replay(job):
    inst, sched, exps = job
    ses = Session(INST_DATA[inst], POLY_PTS)
    steps = [{"a": a, "arg": list(arg)} for a, arg in sched]
    obs = []
    for st in steps:
        try:
            if st["a"] == "apply":
                obs.append({"all": ses.apply(st["arg"][0])})
            else:
                ses.edit(st["a"], st["arg"])
                obs.append({"settings": ses.settings()})
        except Exception as exc:
            obs.append({"raised": type(exc).__name__ + ": " + str(exc)[:80]})
            break
    case = {"inst": inst, "steps": [[s["a"]] + s["arg"] for s in steps],
            "observed_last": obs[-1]}
    div = hist.first_divergence(obs, exps, match=match)
    viol = None
    if div is not None:
        i, allowed = div
        case["failing_step"] = i
        case["allowed"] = allowed[:3]
        case["observed"] = obs[i]
        sig = signature([s for s in steps[:i] if s["a"] != "apply"], steps[i],
                        obs[i], allowed)
        viol = (sig, "step %d %s: observed %s, specification allows %s" % (
            i, steps[i], obs[i], allowed[:2]))
    return case, viol


MC_RECTS = {  # the MC polygons as unions of rectangles, in units of 1/4
    (1, 1): [[2, 10, 2, 14]],
    (1, 2): [[-2, 6, -2, 6]],
    (2, 1): [[-2, 14, -2, 6], [-2, 6, -2, 14]],
    (2, 2): [[6, 14, -2, 14]],
}


def replay_histories(ev, rep, tier, seed):
    """exhaustive (edit; apply)* histories, judged step by step against the
    expectations TLC computed"""
    d = 6 if tier == "quick" else 7
    cfg = HIST + BASE.format(fix="TRUE", d=d, alt="TRUE")
    res = tlc.run("MC_Filter", cfg, workers=8, timeout=3000)
    ev.add_tlc("MC_Filter history enumeration (exhaustive, depth %d)" % d,
               res)
    # depth 7: 1.4 million histories; every fifth schedule (by hash of the
    # schedule, so that all expectations of a kept schedule are kept)
    keep = 1 if tier == "quick" else 5
    by_inst = {}
    for h in res.iter_tagged("H", consume=True):
        if keep > 1:
            key = json.dumps([h["inst"], [[s["a"], s["arg"]] for s in h["h"]]])
            if zlib.crc32(key.encode()) % keep != seed % keep:
                continue
        by_inst.setdefault(h["inst"], []).append(h["h"])
    ev.extra["history_schedules_kept"] = "1/%d" % keep
    jobs = []
    for inst, hs in sorted(by_inst.items()):
        groups = hist.group_by_schedule(hs, sched_key, exp_obs)
        jobs.extend((inst, sched, exps) for sched, exps in groups.items())
    for case, viol in par.pmap(_replay, jobs, chunk=100):
        ev.traces += 1
        ev.case(case, nontrivial=any(s[0] == "apply" for s in case["steps"]))
        if viol:
            rep.violation(viol[0], viol[1], case,
                          size=case.get("failing_step", 0))


def _run_schedule(job):
    """execute a schedule chosen by TLC's simulator on the real dataset and
    record it as a trace (judged by TLC against FilterTrace)"""
    inst, steps = job
    data = {f: [v if v in (NAN, PINF, NINF) else 4 * v for v in vals]
            for f, vals in INST_DATA[inst].items()}
    ses = Session(data, POLY_PTS, scale=4.0)
    evs = []
    for st in steps:
        a, arg = st["a"], list(st["arg"])
        if a == "apply":
            evs.append({"a": a, "arg": arg, "all": ses.apply(arg[0])})
            continue
        if a == "setrange":
            arg = [arg[0], 4 * arg[1], 4 * arg[2]]
        ses.edit(a, arg)
        evs.append({"a": a, "arg": arg, "settings": ses.settings()})
    return {"n": 4, "data": data,
            "polys": [[MC_RECTS[(p, 1)], MC_RECTS[(p, 2)]] for p in (1, 2)],
            "ev": evs, "origin": "tlc-simulate"}


def simulated_schedules(ev, tier, seed):
    """deep random behaviours of FilterSpec (edits and applies in any
    order) from TLC's simulator; only their schedules are used"""
    num = 2000 if tier == "quick" else 40000
    cfg = HIST + BASE.format(fix="TRUE", d=14, alt="FALSE")
    res = tlc.run("MC_Filter", cfg, workers=1, timeout=3000,
                  simulate="num=%d" % num, depth=15, seed=seed)
    ev.add_tlc("MC_Filter simulate num=%d depth 14" % num, res)
    jobs = [(h["inst"], h["h"]) for h in res.tagged("H")][:num]
    return par.pmap(_run_schedule, jobs, chunk=100)


def record_session(rng, tid):
    """a long random edit/apply session on a real dataset, recorded with
    numbers in units of 1/4 (data on half-integers, polygon edges on odd
    quarters, bounds anywhere)"""
    n = rng.choice([5, 30, 80, 200])
    codes = list(range(-12, 37, 2)) + [NAN, PINF, NINF]

    def col():
        return [rng.choice(codes) if rng.random() < 0.9
                else rng.choice([NAN, PINF, NINF, 8, 8, 8]) for _ in range(n)]
    data = {"f1": col(), "f2": col()}
    rects = {}
    for p in (1, 2):
        for v in (1, 2):
            x0 = 2 * rng.randrange(-8, 16) + 1
            y0 = 2 * rng.randrange(-8, 16) + 1
            rects[(p, v)] = (x0, x0 + 2 * rng.randrange(1, 20),
                             y0, y0 + 2 * rng.randrange(1, 20))
    pts = {k: [(r[0] / 4, r[2] / 4), (r[1] / 4, r[2] / 4),
               (r[1] / 4, r[3] / 4), (r[0] / 4, r[3] / 4)]
           for k, r in rects.items()}
    ses = Session(data, pts, scale=4.0)
    st = {"ranges": set(), "polys": set(), "pver": {1: 1, 2: 1}, "limit": 0}
    evs = []
    for _ in range(rng.randrange(30, 120)):
        r = rng.random()
        if r < 0.35:
            a, arg = "apply", [rng.random() < 0.2]
            evs.append({"a": a, "arg": arg, "all": ses.apply(arg[0])})
            continue
        choices = ["setrange", "setrange", "toginvalid", "togenable",
                   "setlimit", "manual", "manual", "invpoly", "modpoly"]
        if st["ranges"]:
            choices += ["rmrange"] * 2
        if len(st["polys"]) < 2:
            choices.append("addpoly")
        if st["polys"]:
            choices.append("rmpoly")
        if rng.random() < 0.04:
            choices = ["reset"]
        a = rng.choice(choices)
        if a == "setrange":
            f = rng.choice(["f1", "f2"])
            lo, hi = rng.randrange(-16, 41), rng.randrange(-16, 41)
            if rng.random() < 0.1:
                hi = lo
            arg = [f, lo, hi]
            st["ranges"].add(f)
        elif a == "rmrange":
            f = rng.choice(sorted(st["ranges"]))
            st["ranges"].discard(f)
            arg = [f]
        elif a == "addpoly":
            p = rng.choice(sorted({1, 2} - st["polys"]))
            st["polys"].add(p)
            arg = [p]
        elif a == "rmpoly":
            p = rng.choice(sorted(st["polys"]))
            st["polys"].discard(p)
            arg = [p]
        elif a == "modpoly":
            p = rng.choice([1, 2])
            st["pver"][p] = 3 - st["pver"][p]
            arg = [p, st["pver"][p]]
        elif a == "invpoly":
            arg = [rng.choice([1, 2])]
        elif a == "setlimit":
            k = rng.choice([x for x in (0, 1, 3, n // 2, n + 5)
                            if x != st["limit"]])
            st["limit"] = k
            arg = [k]
        elif a == "manual":
            arg = [rng.randrange(1, n + 1)]
        else:
            arg = []
            if a == "reset":
                st["polys"] = set()
                st["limit"] = 0
                cfg = ses.ds.config["filtering"]
        ses.edit(a, arg)
        if a == "reset":
            st["ranges"] = {f for f, nm in FEAT.items()
                            if nm + " min" in ses.ds.config["filtering"]}
        evs.append({"a": a, "arg": arg, "settings": ses.settings()})
    return {"n": n, "data": data,
            "polys": [[[list(rects[(p, 1)])], [list(rects[(p, 2)])]]
                      for p in (1, 2)],
            "ev": evs}


def main(tier, seed, replay=None):
    import_dclab()
    ev = evidence.Evidence(PID, tier, seed)
    rep = findings.Reporter(PID, ev)
    ev.rule = ("spec->code: every history of FilterSpec made of (edit; apply) "
               "pairs up to the depth bound on 3 data instances (NaN/inf/ties"
               ") enumerated by TLC and replayed on a real dataset, plus "
               "TLC-simulated behaviours of depth 14; after every edit the "
               "observable settings and after every apply ds.filter.all are "
               "compared with the specification. code->spec: recorded random "
               "sessions (5..200 events) validated by TLC against "
               "FilterTrace incl. reproducibility of the event limit. "
               "non-trivial = contains an apply; distinct by hash.")
    ev.assumptions = ["data and bounds are exactly representable (integers "
                      "and half-integers); polygon vertices never coincide "
                      "with data points (C15 covers the geometry)"]

    # 1. design level
    d = 5 if tier == "quick" else 6
    fixed = tlc.run("MC_Filter", IMPL + BASE.format(d=d, alt="TRUE",
                                                    fix="TRUE"),
                    timeout=3000, coverage=(tier == "thorough"))
    ev.add_tlc("MC_Filter FilterImpl(DiffOldKeys) => FilterSpec depth %d"
               % d, fixed)
    if not fixed.ok:
        raise tlc.TLCError("repaired FilterImpl violates %s\n%s" % (
            fixed.violated, fixed.cex))
    found = tlc.run("MC_Filter", IMPL + BASE.format(d=5, alt="TRUE",
                                                    fix="FALSE"),
                    timeout=900)
    ev.extra["deviation_model_counterexample"] = found.violated
    if found.ok:
        raise tlc.TLCError("as-found FilterImpl no longer yields the "
                           "stale-box counterexample")

    # 2. spec -> code
    replay_histories(ev, rep, tier, seed)

    # 3. code -> spec
    rng = random.Random(seed * 104729 + 3)
    traces = [record_session(rng, i) for i in
              range(40 if tier == "quick" else 400)]
    traces += simulated_schedules(ev, tier, seed)
    cfg = TRACE.replace("TInsts", "TInsts")
    res, ok, rej = tracecheck.validate("MC_FilterTrace", cfg, traces,
                                       workers=8, timeout=3000)
    ev.add_tlc("MC_FilterTrace (%d recorded sessions)" % len(traces), res)
    ev.traces += len(ok)
    ev.extra["recorded_traces"] = len(traces)
    ev.extra["recorded_events"] = sum(len(t["ev"]) for t in traces)
    ev.extra["recorded_traces_accepted"] = len(ok)
    for tid, (line, why) in sorted(rej.items()):
        t = traces[tid - 1]
        e = t["ev"][line - 1] if 0 < line <= len(t["ev"]) else {}
        edits = [x["a"] for x in t["ev"][:line - 1] if x["a"] != "apply"]
        kind = {"selects-excluded-event": "selects excluded event",
                "wrong-number-selected": "wrong number selected",
                "misses-qualifying-event": "wrong number selected"}.get(why)
        if e.get("a") == "apply" and kind:
            sig = "apply after %s: %s" % (edits[-1] if edits else "nothing",
                                          kind)
        else:
            sig = "trace rejected: %s at %s" % (why, e.get("a"))
        rep.violation(sig, "trace %d line %d (%s): %s" % (
            tid, line, why, str(e)[:200]),
            {"trace_head": {k: t[k] for k in ("n", "polys")},
             "data": t["data"], "prefix": t["ev"][:line]}, size=line)
    # binding self-test: corrupt one logged selection
    import copy
    good = [copy.deepcopy(t) for i, t in enumerate(traces, 1) if i in ok][:4]
    flipped = 0
    for t in good:
        for e in t["ev"]:
            if e["a"] == "apply" and len(e["all"]) > 0:
                # dropping a selected event is never a behaviour of the spec
                # (the selection has exactly the required size)
                e["all"] = e["all"][1:]
                flipped += 1
                break
    good = [t for t in good if any(e["a"] == "apply" for e in t["ev"])]
    if flipped:
        _, ok2, rej2 = tracecheck.validate("MC_FilterTrace", cfg, good,
                                           workers=2)
        ev.extra["binding_selftest_rejected"] = len(rej2)
        if len(rej2) < flipped:
            raise tlc.TLCError("binding self-test: corrupted selection "
                               "accepted")
    return rep.finish()
