"""C05 - Young's modulus is the scaled linear interpolation of the LUT.

specs: numeric/EmodulusSpec (exact barycentric interpolation + scaling laws
on a synthetic lattice LUT), EmodulusTrace (laws between paired calls on the
built-in LUTs).
"""
import math
import random
import shutil

import numpy as np

from .. import evidence, findings, lut as lutmod, par, tlc, tracecheck
from ..shims import import_dclab

PID = "C05"
CFG = ("INIT Init\nNEXT Next\nCONSTRAINT Emit\nINVARIANT Laws\nCONSTANTS\n"
       " MaxBatch = {mb}\n Lattice <- MCLattice\n Ratios = {{1, 2}}\n"
       "CHECK_DEADLOCK FALSE\n")
TRACE = "INIT TInit\nNEXT TStep\nCONSTRAINT Report\nCHECK_DEADLOCK FALSE\n"
NODES = {1: np.array([[0, 0, 1], [6, 0, 2], [0, 6, 4], [2, 2, 3]], dtype=float),
         2: np.array([[1, 1, 2], [7, 1, 1], [1, 7, 3], [3, 3, 5]], dtype=float)}
META = dict(lutmod.META, identifier="VERIF-2D-TRI-01",
            **{"column features": ["area_um", "deform", "emodulus"]})


def lut_array(which=1):
    arr = NODES[which].copy()
    arr[:, 0] = 20 + 10 * NODES[which][:, 0]
    arr[:, 1] = 0.01 + 0.02 * NODES[which][:, 1]
    return arr


_ROUTES = {}


def routes(root):
    if not _ROUTES:
        from dclab.features.emodulus import load
        p = lutmod.write_lut(root / "tri.txt", lut_array(), "VERIF-2D-TRI-01")
        if "VERIF-2D-TRI-01" not in load.EXTERNAL_LUTS:
            load.register_lut(p)
        # the second table carries the SAME identifier in its metadata (a
        # modified copy of a table): array+meta and path routes only
        p2 = lutmod.write_lut(root / "tri2.txt", lut_array(2),
                              "VERIF-2D-TRI-01")
        _ROUTES.update({1: {"array+meta": (lut_array(), dict(META)),
                            "path": p, "identifier": "VERIF-2D-TRI-01"},
                        2: {"array+meta": (lut_array(2), dict(META)),
                            "path": p2}})
        # the same tables with the volume as first column
        vmeta = dict(META, identifier="VERIF-3D-TRI-01", **{
            "column features": ["volume", "deform", "emodulus"]})
        pv = lutmod.write_lut(root / "triv.txt", lut_array(),
                              "VERIF-3D-TRI-01",
                              features=("volume", "deform"))
        _ROUTES.update({(1, "volume"): {"array+meta": (lut_array(), vmeta),
                                        "path": pv},
                        (2, "volume"): {"array+meta": (lut_array(2),
                                                       dict(vmeta))}})
    return _ROUTES


def _case(job):
    from dclab.features.emodulus import get_emodulus
    case, root = job
    par_ = case["par"]
    wr, qr, vr = par_["wr"], par_["qr"], par_["vr"]
    pts = case["batch"]
    vol_axis = par_.get("axis") == "volume"
    area = np.array([wr ** (3 if vol_axis else 2) * (20.0 + 10 * p[0])
                     for p in pts])
    defo = np.array([0.01 + 0.02 * p[1] for p in pts])
    out = []
    which = par_["lut"]
    rts = routes(root)[(which, "volume") if vol_axis else which]
    name = sorted(rts)[hash(str(case["batch"])) % len(rts)]
    lut_data = rts[name]
    lut_before = lut_array(which)
    a0, d0 = area.copy(), defo.copy()
    kw = dict(medium=15.0 * vr, channel_width=20.0 * wr,
              flow_rate=0.04 * qr, px_um=0, temperature=None,
              visc_model=None, lut_data=lut_data)
    try:
        import warnings
        with warnings.catch_warnings():
            warnings.simplefilter("ignore")
            xk = "volume" if vol_axis else "area_um"
            got = np.atleast_1d(get_emodulus(deform=defo, **{xk: area}, **kw))
            single = [float(np.atleast_1d(get_emodulus(
                deform=defo[i:i + 1].copy(), **{xk: area[i:i + 1].copy()},
                **kw))[0]) for i in range(len(pts))]
            # a caller that loads the table itself and scribbles over what
            # it was handed (array and metadata) changes nothing for others
            if name != "array+meta":
                from dclab.features.emodulus import load as lutload
                l_, m_ = lutload.load_lut(lut_data)
                l_[:] = -1.0
                m_["channel_width"] = 12345.0
                m_["flow_rate"] = 9.0
                m_["column features"] = ["volume", "deform", "emodulus"] \
                    if not vol_axis else ["area_um", "deform", "emodulus"]
            again = np.atleast_1d(get_emodulus(deform=defo, **{xk: area},
                                               **kw))
            # temperature given globally or per event (known medium)
            tkw = dict(kw, medium="CellCarrier", temperature=23.0,
                       visc_model="buyukurganci-2022")
            t_sc = np.atleast_1d(get_emodulus(deform=defo, **{xk: area},
                                              **tkw))
            t_ar = np.atleast_1d(get_emodulus(
                deform=defo, **{xk: area},
                **dict(tkw, temperature=np.full(len(pts), 23.0))))
    except BaseException as exc:
        return {"batch": pts, "par": par_}, [
            ("get_emodulus raises %s (%s route)" % (type(exc).__name__, name),
             repr(exc)[:150])]
    for i, (exp, onhull) in enumerate(zip(case["expected"], case["onhull"])):
        g = float(got[i])
        if exp[1] == 0:
            ok = math.isnan(g)
            what = "finite value outside the LUT support"
        else:
            want = exp[0] / exp[1]
            ok = abs(g - want) <= 1e-9 * max(1.0, abs(want))
            what = "value differs from the scaled linear interpolation"
            if onhull and math.isnan(g):
                ok = True      # points on the hull edge may fall outside
        if not ok:
            out.append(("%s (%s route%s)" % (
                what, name, "" if which == 1 else
                ", second table with the same identifier"),
                        "point %s par %s: got %r expected %s" % (
                            pts[i], par_, g, exp)))
        s = single[i]
        if not (g == s or (math.isnan(g) and math.isnan(s))
                or abs(g - s) <= 1e-12 * max(1.0, abs(s))):
            out.append(("value depends on the other events of the batch",
                        "point %s: %r in batch vs %r alone" % (pts[i], g, s)))
    if not np.array_equal(got, again, equal_nan=True):
        out.append(("repeated call gives a different result", str(case)))
    if not np.allclose(t_sc, t_ar, rtol=1e-12, atol=0, equal_nan=True):
        out.append(("value depends on whether the temperature is given per "
                    "event or globally (%s table)" % (
                        "volume" if vol_axis else "area"),
                    "%s: %r vs %r" % (case, t_sc, t_ar)))
    if not (np.array_equal(area, a0) and np.array_equal(defo, d0)):
        out.append(("the caller's arrays are modified", name))
    if name == "array+meta" and not np.array_equal(lut_data[0], lut_before):
        out.append(("the caller's LUT array is modified", name))
    return {"batch": pts, "par": par_, "route": name}, out


def micro(v):
    return [-1 if not np.isfinite(x) else int(round(x * 1e6)) for x in v]


LAWS = ["double-visc", "double-flow", "rescale", "split", "temperature-array",
        "repeat", "pixelation", "pixelation-split", "medium-spelling"]


def record(rng, lut_name, law=None, spelling=None):
    """one pair of calls on a built-in LUT related by a law"""
    from dclab.features.emodulus import get_emodulus
    import warnings
    rs = np.random.RandomState(rng.randrange(2**31))
    n = 12
    from dclab.features.emodulus.load import load_lut
    is3d = load_lut(lut_name)[1]["column features"][0] == "volume"
    # the set-up differs from the table's (20 um) in two thirds of the calls
    cw = rng.choice([20.0, 30.0, 40.0])
    area = rs.uniform(30, 250, n) * (cw / 20.0) ** 2
    vol = rs.uniform(200, 2500, n) * (cw / 20.0) ** 3
    defo = rs.uniform(0.005, 0.12, n)
    base = dict(channel_width=cw, flow_rate=0.04 * (cw / 20.0) ** 3,
                px_um=0.0, lut_data=lut_name)
    if law is None:
        law = rng.choice(LAWS)

    def call(d, x, **kw):
        k = dict(base)
        k.update(kw)
        if is3d:
            return get_emodulus(deform=d.copy(), volume=x.copy(), **k)
        return get_emodulus(deform=d.copy(), area_um=x.copy(), **k)
    x = vol if is3d else area
    rec = {"law": "equal", "kind": law, "lut": lut_name, "raised": False,
           "channel_width": cw,
           "a": [], "b": [], "inputs_modified": False}
    x0, d0 = x.copy(), defo.copy()
    num = dict(medium=6.0, temperature=None, visc_model=None)
    try:
        with warnings.catch_warnings():
            warnings.simplefilter("ignore")
            if law == "double-visc":
                a = call(defo, x, **num)
                b = call(defo, x, **dict(num, medium=12.0))
                rec["law"] = "double"
            elif law == "double-flow":
                a = call(defo, x, **num)
                b = call(defo, x, flow_rate=2 * base["flow_rate"], **num)
                rec["law"] = "double"
            elif law == "rescale":
                a = call(defo, x, **num)
                s = 2.0
                b = call(defo, x * (s ** 3 if is3d else s ** 2),
                         channel_width=s * cw,
                         flow_rate=base["flow_rate"] * s ** 3, **num)
            elif law == "split":
                a = call(defo, x, **num)
                b = np.concatenate([call(defo[:5], x[:5], **num),
                                    call(defo[5:], x[5:], **num)])
            elif law == "temperature-array":
                kw = dict(medium="CellCarrier", visc_model="buyukurganci-2022")
                a = call(defo, x, temperature=23.5, **kw)
                b = call(defo, x, temperature=np.full(n, 23.5), **kw)
            elif law == "medium-spelling":
                # every documented name of a medium, in the given and in
                # all-lower-case spelling, selects the same viscosity
                from dclab.features.emodulus import viscosity
                pairs = [(g, nm2) for g in sorted(viscosity.SAME_MEDIA)
                         for nm in viscosity.SAME_MEDIA[g]
                         for nm2 in (nm, nm.lower())]
                group, name = pairs[rng.randrange(10**6) % len(pairs)] \
                    if spelling is None else pairs[spelling % len(pairs)]
                rec["spelling"] = [group, name]
                kw = dict(temperature=23.5, visc_model="buyukurganci-2022")
                a = call(defo, x, medium=group, **kw)
                b = call(defo, x, medium=name, **kw)
            elif law == "pixelation":
                # the documented pixelation correction: the deformation is
                # reduced by the published delta before the look-up
                from dclab.features.emodulus import pxcorr
                # (pixel sizes other than the usual 0.34 um as well)
                pxl = [0.12, 0.227, 0.5, 0.34]
                pxs = rng.choice(pxl) if spelling is None \
                    else pxl[spelling % 4]
                rec["px_um"] = pxs
                # the published correction (triple-exponential decay in
                # the area / volume expressed in 0.34 um pixels), written
                # out here independently of dclab
                if is3d:
                    xs_ = x * (0.34 / pxs) ** 3
                    delta = 0.0013 + 0.0172 * np.exp(-xs_ / 40) \
                        + 0.0070 * np.exp(-xs_ / 450) \
                        + 0.0032 * np.exp(-xs_ / 6040)
                else:
                    xs_ = x * (0.34 / pxs) ** 2
                    delta = 0.0012 + 0.020 * np.exp(-xs_ / 7.1) \
                        + 0.010 * np.exp(-xs_ / 38.6) \
                        + 0.005 * np.exp(-xs_ / 296)
                a = call(defo, x, **dict(num, px_um=pxs))
                b = call(defo - delta, x, **num)
            elif law == "pixelation-volume":
                # a user-supplied table over (volume, deform): the built-in
                # table with its area axis re-expressed as a volume
                import copy as _copy
                arr, meta = load_lut(lut_name)
                if not is3d:
                    arr = np.array(arr, copy=True)
                    arr[:, 0] = arr[:, 0] ** 1.5
                    meta = _copy.deepcopy(meta)
                    meta["column features"] = ["volume", "deform",
                                               "emodulus"]
                pxl = [0.12, 0.227, 0.5, 0.34]
                pxs = pxl[(spelling or 0) % 4]
                rec["px_um"] = pxs
                cwr = cw / 20.0
                xv = (rs.uniform(30, 250, n) ** 1.5) * cwr ** 3
                xs_ = xv * (0.34 / pxs) ** 3
                delta = 0.0013 + 0.0172 * np.exp(-xs_ / 40) \
                    + 0.0070 * np.exp(-xs_ / 450) \
                    + 0.0032 * np.exp(-xs_ / 6040)
                kwv = dict(base, lut_data=(arr, meta), **num)
                a = get_emodulus(deform=defo.copy(), volume=xv.copy(),
                                 **dict(kwv, px_um=pxs))
                b = get_emodulus(deform=defo - delta, volume=xv.copy(),
                                 **dict(kwv, px_um=0.0))
                x = xv
                x0 = xv.copy()
            elif law == "pixelation-split":
                a = call(defo, x, **dict(num, px_um=0.34))
                b = np.concatenate(
                    [call(defo[:5], x[:5], **dict(num, px_um=0.34)),
                     call(defo[5:], x[5:], **dict(num, px_um=0.34))])
            else:
                a = call(defo, x, **num)
                b = call(defo, x, **num)
        rec["a"], rec["b"] = micro(a), micro(b)
        rec["inputs_modified"] = not (np.array_equal(x, x0)
                                      and np.array_equal(defo, d0))
    except BaseException as exc:
        rec["raised"] = True
        rec["exc"] = type(exc).__name__
    return rec


def main(tier, seed, replay=None):
    import_dclab()
    ev = evidence.Evidence(PID, tier, seed)
    rep = findings.Reporter(PID, ev)
    ev.rule = ("EmodulusSpec: a lattice LUT with an unambiguous triangulation "
               "(triangle + interior node); TLC computes for every batch of "
               "up to MaxBatch lattice points (inside, on nodes, on edges, "
               "outside the hull and its bounding box) and every integer "
               "ratio of channel width / flow rate / viscosity the exact "
               "rational modulus (or NaN) and proves the scaling laws; each "
               "case is evaluated by get_emodulus through the array+meta, "
               "path and registered-identifier routes, as a batch, event by "
               "event and repeatedly. Paired calls on the three built-in "
               "LUTs are recorded in micro-kPa and judged by TLC "
               "(EmodulusTrace). non-trivial = a finite expected value.")
    ev.assumptions = [
        "that the values for the built-in 10^4-node LUTs equal their "
        "piecewise-linear interpolation over the continuous plane, and the "
        "viscosity formulas, are numeric accuracy outside the TLA+ oracle "
        "(DESIGN section 7); only the algebraic laws are decided there",
        "pixelation correction is exercised with px_um = 0 only"]
    q = tier == "quick"
    res = tlc.run("EmodulusSpec", CFG.format(mb=2), workers=8, timeout=3000)
    if not res.ok:
        raise tlc.TLCError("EmodulusSpec: %s\n%s" % (res.violated, res.cex))
    ev.add_tlc("EmodulusSpec batches x ratios (Laws proved)", res)
    seen, cases = set(), []
    for c in res.tagged("H"):
        k = str(c)
        if k not in seen:
            seen.add(k)
            cases.append(c)
    cases = par.sample(cases, 9 if q else 1, seed)
    root = tlc.scratch_dir("vp_c05_")
    try:
        routes(root)
        for case, viols in par.pmap(_case, [(c, root) for c in cases],
                                    chunk=100):
            ev.traces += 1
            ev.case(case, nontrivial=True)
            for sig, detail in viols:
                rep.violation(sig, detail, case, size=len(case["batch"]))
        rng = random.Random(seed * 389 + 5)
        luts = ["LE-2D-FEM-19", "HE-2D-FEM-22", "HE-3D-FEM-22"]
        # every law on every built-in table (parameters drawn at random)
        jobs = [(random.Random(rng.randrange(2**31)), lut, law, None)
                for _ in range(1 if q else 9) for lut in luts
                for law in LAWS]
        for lut in luts:
            for k in range(4 if q else 20):
                jobs.append((random.Random(rng.randrange(2**31)), lut,
                             "pixelation", k))
                jobs.append((random.Random(rng.randrange(2**31)), lut,
                             "pixelation-volume", k))
        # every documented spelling of every medium (tables in turn)
        for k in range(40 if q else 120):
            jobs.append((random.Random(rng.randrange(2**31)), luts[k % 3],
                         "medium-spelling", k))
        recs = par.pmap(lambda j: record(*j), jobs, chunk=4)
        res2, okset, rej = tracecheck.validate("EmodulusTrace", TRACE, recs,
                                               workers=2)
        ev.add_tlc("EmodulusTrace (%d recorded call pairs)" % len(recs),
                   res2)
        ev.traces += len(okset)
        ev.extra["recorded_pairs"] = len(recs)
        ev.extra["recorded_pairs_accepted"] = len(okset)
        for tid, (_, why) in sorted(rej.items()):
            r = recs[tid - 1]
            rep.violation("built-in LUT law '%s' %s" % (
                r["kind"], why if why != "raised"
                else "raises " + str(r.get("exc"))),
                "%s a=%s b=%s" % (r["lut"], r["a"][:4], r["b"][:4]), r,
                size=100)
    finally:
        shutil.rmtree(root, ignore_errors=True)
    return rep.finish()
