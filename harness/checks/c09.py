"""C09 - Split partitions and join concatenates events without loss or
reordering.

spec: cli/SplitJoinSpec.
"""
import contextlib
import json
import zlib
import io
import shutil

import numpy as np

from .. import evidence, findings, gen, par, tlc
from ..shims import import_dclab

PID = "C09"
CFG = ("INIT Init\nNEXT Next\nCONSTRAINT Emit\nINVARIANT SplitIsPartition\n"
       "CONSTANTS\n MaxInputs = {m}\n Sizes = {sizes}\n FeatSets <- {fs}\n"
       " Ticks = {ticks}\n Dates = {dates}\n RunIdx = {run}\n"
       "CHECK_DEADLOCK FALSE\n")
DATE = {1: "2024-02-03", 2: "2024-02-04"}
FR = 2000.0


def frame_rate(i):
    """every input has a frame rate of its own (the frames of an input are
    counted at its own rate)"""
    return FR + 500.0 * (i % 3)


def tstr(tick):
    sec = tick // 2
    s = "12:%02d:%02d" % (sec // 60, sec % 60)
    return s + (".5" if tick % 2 else "")


def write_input(path, i, inp):
    ids = [100 * i + j for j in range(1, inp["n"] + 1)]
    feats = ["deform", "time", "frame", "index_online"] + sorted(inp["feats"])
    gen.write_rtdc(path, ids, feats=feats,
                   meta={"experiment": {"date": DATE[inp["date"]],
                                        "time": tstr(inp["tick"]),
                                        "run index": inp["run"],
                                        "sample": "input %d" % i},
                         "imaging": {"frame rate": frame_rate(i)}},
                   logs={"log_%d" % i: ["hello from %d" % i, "bye"]},
                   run_id="verif-join-%d" % i)
    return ids


def _join(job):
    import dclab
    from dclab import cli
    import os
    case, root = job
    d = root / ("j%d_%d" % (os.getpid(), _join.k))
    _join.k += 1
    d.mkdir()
    out = []
    try:
        inputs = case["inputs"]
        paths = []
        # file names are not part of the specification: choose them so that
        # their alphabetical order is unrelated to the given order
        k = len(inputs)
        labels = "abcdefgh"[:k]
        rot = zlib.crc32(json.dumps(inputs, sort_keys=True).encode()) % k
        labels = labels[::-1] if rot == 0 else labels[rot:] + labels[:rot]
        for i, inp in enumerate(inputs, start=1):
            p = d / ("in_%s.rtdc" % labels[i - 1])
            write_input(p, i, inp)
            paths.append(p)
        po = d / "out.rtdc"
        try:
            with contextlib.redirect_stdout(io.StringIO()):
                cli.join(paths_in=paths, path_out=po)
        except BaseException as exc:
            fs = [sorted(i["feats"]) for i in inputs]
            missing = sorted(set(fs[0]) - set.intersection(
                *[set(f) for f in fs]))
            return {"inputs": inputs}, [(
                "join raises %s (%d feature(s) of the first input missing "
                "in another)" % (type(exc).__name__, len(missing)),
                "%r inputs=%s" % (exc, inputs))]
        with dclab.new_dataset(po) as ds:
            got = gen.decode_scalar("deform", ds["deform"][:])
            allowed = [list(e) for e in case["events"]]
            if got not in allowed:
                ticks = [(i["date"], i["tick"], i["run"]) for i in inputs]
                frac = any(i["tick"] % 2 for i in inputs)
                out.append(("joined events are not in chronological order "
                            "(%s)" % ("fractional seconds involved" if frac
                                      else "run index tie" if len({
                                          t[:2] for t in ticks}) < len(ticks)
                                      else "whole seconds"),
                            "got %s allowed %s inputs %s" % (got, allowed,
                                                             ticks)))
                return {"inputs": inputs}, out
            order = [list(o) for o in case["orders"]][allowed.index(got)]
            need = set(case["feats"]) | {"deform", "time", "frame",
                                         "index_online"}
            have = set(ds.features_innate)
            if not need <= have:
                out.append(("a feature available in every input is missing "
                            "in the joined file", str(sorted(need - have))))
            extra = have - need - {"index"}
            if extra:
                out.append(("joined file has a feature that is not in every "
                            "input", str(sorted(extra))))
            for f in sorted(need & have - {"time", "frame", "index_online"}):
                if gen.decode_scalar(f, ds[f][:]) != got:
                    out.append(("feature values differ from the "
                                "concatenation", f))
            # continuity of time and frame
            first = inputs[order[0] - 1]
            wt, wf = [], []
            for i in order:
                inp = inputs[i - 1]
                dt = (inp["date"] - first["date"]) * 86400 + (
                    inp["tick"] - first["tick"]) * 0.5
                ids = [100 * i + j for j in range(1, inp["n"] + 1)]
                wt += list(gen.scalar("time", ids) + dt)
                wf += [int(x) + int(round(dt * frame_rate(i)))
                       for x in gen.scalar("frame", ids)]
            if not np.allclose(ds["time"][:], wt, rtol=0, atol=1e-9):
                out.append(("time is not continued by the acquisition "
                            "offsets", "%s vs %s" % (ds["time"][:][:4],
                                                     wt[:4])))
            if [int(x) for x in ds["frame"][:]] != wf:
                out.append(("frame is not continued by the acquisition "
                            "offsets", ""))
            # the online index keeps every source's values up to one offset
            # per source and never runs backwards between sources
            if "index_online" in have:
                ionl = [int(x) for x in ds["index_online"][:]]
                pos, prev_last = 0, None
                for i in order:
                    inp = inputs[i - 1]
                    ids = [100 * i + j for j in range(1, inp["n"] + 1)]
                    src = [int(x) for x in gen.scalar("index_online", ids)]
                    blk = ionl[pos:pos + len(src)]
                    pos += len(src)
                    if len({b - a for a, b in zip(src, blk)}) > 1:
                        out.append(("index_online of a source is altered "
                                    "beyond an offset", "source %d" % i))
                        break
                    if prev_last is not None and blk and blk[0] <= prev_last:
                        out.append(("index_online runs backwards between "
                                    "sources (%d inputs)" % len(inputs),
                                    "%s" % ionl))
                        break
                    prev_last = blk[-1] if blk else prev_last
            if "index" in ds and list(ds["index"][:]) != list(
                    range(1, len(got) + 1)):
                out.append(("index is not 1..N", ""))
            if len(ds) != len(got):
                out.append(("event count wrong", ""))
            for i in range(1, len(inputs) + 1):
                lg = [k for k in ds.logs.keys() if k.endswith("log_%d" % i)]
                if not lg or list(ds.logs[lg[0]]) != ["hello from %d" % i,
                                                      "bye"]:
                    out.append(("log of a source is not retained",
                                "log_%d" % i))
    finally:
        shutil.rmtree(d, ignore_errors=True)
    return {"inputs": case["inputs"], "events": case["events"]}, out


_join.k = 0


def _split(job):
    import dclab
    from dclab import cli
    import os
    case, root = job
    d = root / ("s%d_%d" % (os.getpid(), _split.k))
    _split.k += 1
    d.mkdir()
    out = []
    try:
        n, size = case["n"], case["size"]
        ids = list(range(1, n + 1))
        src = d / "m.rtdc"
        feats = ("deform", "area_um", "image", "mask", "contour", "trace",
                 "time", "frame", "fl1_max")
        gen.write_rtdc(src, ids, feats=feats, logs={"srclog": ["a", "b"]},
                       meta={"imaging": {"frame rate": FR}})
        with contextlib.redirect_stdout(io.StringIO()):
            parts = cli.split(path_in=src, path_out=d, split_events=size,
                              ret_out_paths=True, verbose=False)
        want = [list(p) for p in case["parts"]]
        gotp = []
        for p in parts:
            with dclab.new_dataset(p) as ds:
                gotp.append(gen.decode_scalar("deform", ds["deform"][:]))
                for f in ("image", "mask", "trace", "contour"):
                    r = gen.read_feature_ids(ds, f)
                    ok = all(v == gotp[-1] for v in r.values()) \
                        if isinstance(r, dict) else r == gotp[-1]
                    if not ok:
                        out.append(("split part: %s differs" % f, str(r)))
        if gotp != want:
            out.append(("split does not partition the events in order "
                        "(size %s N)" % ("divides" if n % size == 0 else
                                         "exceeds" if size > n else
                                         "does not divide"),
                        "n=%d size=%d got %s" % (n, size, gotp)))
        # joining the parts reproduces the original
        if len(parts) >= 2 and not out:
            po = d / "rejoined.rtdc"
            with contextlib.redirect_stdout(io.StringIO()):
                cli.join(paths_in=list(parts), path_out=po)
            with dclab.new_dataset(po) as ds, dclab.new_dataset(src) as so:
                for f in feats:
                    if f in ("trace",):
                        ok = all(np.array_equal(ds["trace"][k][:],
                                                so["trace"][k][:])
                                 for k in so["trace"].keys())
                    elif f in ("contour", "image", "mask"):
                        ok = len(ds[f]) == n and all(
                            np.array_equal(ds[f][i], so[f][i])
                            for i in range(n))
                    else:
                        ok = np.array_equal(ds[f][:], so[f][:])
                    if not ok:
                        out.append(("joining the parts of a split does not "
                                    "reproduce %s" % (
                                        f if f in ("time", "frame")
                                        else "the feature data"), f))
    except BaseException as exc:
        out.append(("split/join round trip raises %s" % type(exc).__name__,
                    "%r n=%d size=%d" % (exc, case["n"], case["size"])))
    finally:
        shutil.rmtree(d, ignore_errors=True)
    return {"n": case["n"], "size": case["size"]}, out


_split.k = 0


def main(tier, seed, replay=None):
    import_dclab()
    ev = evidence.Evidence(PID, tier, seed)
    rep = findings.Reporter(PID, ev)
    ev.rule = ("SplitJoinSpec enumerates (a) every split (n <= 7, size <= 9) "
               "with the slices it must produce and (b) join cases: 2..3 "
               "inputs with every/selected feature subsets, acquisition "
               "times incl. fractional seconds, two dates, run-index ties, "
               "in every given order, with the admissible output orders, the "
               "concatenated tokens and the common features; each case runs "
               "dclab.cli.split / join on generated files; outputs are "
               "decoded to tokens, time/frame offsets, index, event count "
               "and logs are compared, and the parts of every split are "
               "joined again. non-trivial = inputs differ in time or "
               "features / more than one part.")
    ev.assumptions = ["inputs with identical date and time may be ordered as "
                      "given or by ascending numeric run index"]
    q = tier == "quick"
    plans = [
        ("2 inputs, all feature subsets, fractional seconds",
         dict(m=2, sizes="{2}", fs="AllFeatSets", ticks="{0, 1, 2, 20}",
              dates="{1}", run="{1}"), 12 if q else 1),
        ("3 inputs, two dates", dict(m=3, sizes="{2}", fs="FewFeatSets",
                                     ticks="{0, 1}", dates="{1, 2}",
                                     run="{1}"), 12 if q else 1),
        ("run-index ties", dict(m=2, sizes="{1, 3}", fs="FewFeatSets",
                                ticks="{0}", dates="{1}", run="{9, 10}"),
         4 if q else 1)]
    root = tlc.scratch_dir("vp_c09_")
    try:
        splits_done = False
        for name, kw, samp in plans:
            res = tlc.run("MC_SplitJoin", CFG.format(**kw), workers=8,
                          timeout=3000)
            if not res.ok:
                raise tlc.TLCError("SplitJoinSpec: %s" % res.violated)
            ev.add_tlc("MC_SplitJoin " + name, res)
            seen, joins, splits = set(), [], []
            for c in res.tagged("H"):
                s = str(c)
                if s in seen:
                    continue
                seen.add(s)
                (splits if c["mode"] == "split" else joins).append(c)
            joins = [c for c in joins if len(c["inputs"]) == kw["m"]
                     or kw["m"] == 2]
            joins = par.sample(joins, samp, seed)
            for case, viols in par.pmap(_join, [(c, root) for c in joins],
                                        chunk=10):
                ev.traces += 1
                ev.case(case, nontrivial=True)
                for sig, detail in viols:
                    rep.violation(sig, detail, case,
                                  size=len(case["inputs"]))
            if not splits_done:
                splits_done = True
                for case, viols in par.pmap(_split,
                                            [(c, root) for c in splits],
                                            chunk=4):
                    ev.traces += 1
                    ev.case(case, nontrivial=case["size"] < case["n"])
                    for sig, detail in viols:
                        rep.violation(sig, detail, case, size=case["n"])
    finally:
        shutil.rmtree(root, ignore_errors=True)
    return rep.finish()
