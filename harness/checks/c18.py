"""C18 - Contour-, image- and fluorescence-derived features obey their
definitions.

specs: numeric/MaskSpec, MomentsSpec, VolumeSpec, BrightSpec, CrosstalkSpec
(exact integer / rational oracles on lattice instances, laws checked by TLC).
"""
import math

import numpy as np

from .. import evidence, findings, par, tlc
from ..shims import import_dclab

PID = "C18"


def dedup(res):
    seen, out = set(), []
    for c in res.tagged("H"):
        k = str(c)
        if k not in seen:
            seen.add(k)
            out.append(c)
    return out


def near(a, b, rtol=1e-9):
    return abs(a - b) <= rtol * max(1.0, abs(b))


# ------------------------------------------------------------------ masks
def _mask_case(job):
    import scipy.ndimage as ndi
    from dclab.features.contour import get_contour
    from dclab.features import volume as vol
    case, W, H = job
    out = []
    cells = [tuple(c) for c in case["mask"]]
    xs = [c[0] for c in cells]
    ys = [c[1] for c in cells]
    bw, bh = max(xs) - min(xs) + 1, max(ys) - min(ys) + 1
    fw, fh = W + 6, H + 5
    # placements of the mask's bounding box in the frame: interior, and
    # touching exactly one border / a corner
    places = {"interior": (2, 3), "left border": (0, 2),
              "right border": (fw - bw, 2), "top border": (3, 0),
              "bottom border": (3, fh - bh), "top-left corner": (0, 0),
              "bottom-right corner": (fw - bw, fh - bh)}
    stack, direct = [], []
    for where, (px, py) in places.items():
        ox, oy = px - (min(xs) - 1), py - (min(ys) - 1)
        m = np.zeros((fh, fw), dtype=bool)
        for x, y in cells:
            m[y - 1 + oy, x - 1 + ox] = True
        try:
            c = get_contour(m)
            stack.append(m)
            direct.append(np.asarray(c))
        except BaseException as exc:
            out.append(("get_contour raises %s (%s mask, %s)" % (
                type(exc).__name__, "single-pixel" if len(cells) == 1
                else "connected", where), str(sorted(cells))))
            continue
        c = np.asarray(c)
        if c.ndim != 2 or c.shape[1] != 2:
            out.append(("contour has wrong shape", str(c.shape)))
            continue
        bnd = {(x - 1 + ox, y - 1 + oy) for x, y in
               (tuple(b) for b in case["boundary"])}
        pts = {(int(x), int(y)) for x, y in c}
        if not pts <= bnd:
            out.append(("contour leaves the mask boundary (%s)" % where,
                        "mask %s contour %s" % (sorted(cells), sorted(pts))))
        if len(c) > 1 and any(np.array_equal(c[i], c[i - 1])
                              for i in range(1, len(c))):
            out.append(("contour has consecutive duplicates", ""))
        refill = np.zeros_like(m)
        refill[c[:, 1], c[:, 0]] = True
        ndi.binary_fill_holes(refill, output=refill)
        if not np.array_equal(refill, m):
            out.append(("refilling the contour does not reproduce the mask "
                        "(%s)" % where, "mask %s" % sorted(cells)))
        # volume laws on this contour
        if len(cells) >= 4 and len(c) >= 4 and where == "interior":
            try:
                cx, cy = float(np.mean(c[:, 0])), float(np.mean(c[:, 1]))
                # (the centroid is given in micrometres)
                v1 = vol.get_volume(c, cx * 0.34, cy * 0.34, 0.34)
                v2 = vol.get_volume(c, cx * 0.68, cy * 0.68, 0.68)
                # get_volume documents NaN only for contours of fewer than
                # four points: with four or more the cone summation is a
                # finite number (which the laws below then constrain)
                if not (np.isfinite(v1) and np.isfinite(v2)):
                    out.append(("volume of a contour with at least four "
                                "points is not finite", "%d points: %s, %s"
                                % (len(c), v1, v2)))
                if v1 != 0 and np.isfinite(v1) and not near(v2, 8 * v1):
                    out.append(("volume does not scale with the cube of the "
                                "pixel size", "%s vs %s" % (v2, 8 * v1)))
                v3 = vol.get_volume(c[::-1], cx * 0.34, cy * 0.34, 0.34)
                if np.isfinite(v1) and not near(v3, -v1):
                    out.append(("volume does not flip sign with orientation",
                                "%s vs %s" % (v3, v1)))
                # fix_orientation chooses one of the two orientations: the
                # result is the volume of the contour as given or reversed
                for cc, nm in ((c, "as given"), (c[::-1], "reversed")):
                    v4 = vol.get_volume(cc, cx * 0.34, cy * 0.34, 0.34,
                                        fix_orientation=True)
                    if np.isfinite(v1) and not (near(v4, v1)
                                                or near(v4, -v1)):
                        out.append(("volume with fix_orientation is neither "
                                    "orientation's volume",
                                    "%s contour: %s vs +-%s" % (nm, v4, v1)))
            except BaseException as exc:
                out.append(("get_volume raises " + type(exc).__name__,
                            repr(exc)[:100]))
    # the contours of a stack of masks, read event by event in an order
    # with repetitions: contour i is the contour of mask i whatever was
    # read before
    if len(stack) >= 3:
        import zlib
        from dclab.features.contour import get_contour_lazily
        lazy = get_contour_lazily(np.array(stack))
        k = zlib.crc32(repr(sorted(cells)).encode())
        order = [0, 0, 1, 1, 2, 1, 0] + [(k >> (3 * j)) % len(stack)
                                         for j in range(8)] + [1, 2, 2, 0]
        for pos, i in enumerate(order):
            try:
                got = np.asarray(lazy[i])
            except BaseException as exc:
                out.append(("reading the contour of an event raises "
                            + type(exc).__name__, "order %s" % order[:pos + 1]))
                break
            if not np.array_equal(got, direct[i]):
                out.append(("contour of an event read from a stack of masks "
                            "is not the contour of its mask",
                            "mask %s read order %s" % (sorted(cells),
                                                       order[:pos + 1])))
                break
    return {"mask": sorted(cells)}, out


# ---------------------------------------------------------------- moments
def _moment_case(case):
    from dclab.features import inert_ratio as ir
    P = np.array(case["poly"], dtype=int)
    out = []
    a2 = case["a2"]
    sg = 1 if a2 > 0 else -1
    try:
        m = ir.cont_moments_cv(P)
    except BaseException as exc:
        return {"poly": case["poly"]}, [("cont_moments_cv raises "
                                         + type(exc).__name__, str(case))]
    if m is None:
        return {"poly": case["poly"]}, [("cont_moments_cv returns None for "
                                         "a polygon with non-zero area",
                                         str(case))]
    want = {"m00": abs(a2) / 2, "m10": sg * case["m10x6"] / 6,
            "m01": sg * case["m01x6"] / 6, "m20": sg * case["m20x12"] / 12,
            "m02": sg * case["m02x12"] / 12, "m11": sg * case["m11x24"] / 24,
            "mu20": case["mu20x"] / (72 * abs(a2)),
            "mu02": case["mu02x"] / (72 * abs(a2))}
    for k, w in want.items():
        if not near(float(m[k]), w):
            out.append(("contour moment %s differs from Green's formula"
                        % k, "%s: %r vs %r" % (case["poly"], m[k], w)))
    mu20, mu02 = want["mu20"], want["mu02"]
    if mu20 > 0 and mu02 > 0:
        try:
            raw = float(ir.get_inert_ratio_raw(P))
            if not near(raw, math.sqrt(mu20 / mu02), 1e-6):
                out.append(("inert_ratio_raw^2 is not mu20/mu02",
                            "%s: %r" % (case["poly"], raw)))
            sw = float(ir.get_inert_ratio_raw(P[:, ::-1]))
            if not near(raw * sw, 1.0, 1e-6):
                out.append(("inert_ratio_raw not reciprocal under axis "
                            "swap", str(case["poly"])))
            tr = float(ir.get_inert_ratio_raw(P + np.array([37, 11])))
            if not near(tr, raw, 1e-6):
                out.append(("inert_ratio_raw not translation invariant",
                            str(case["poly"])))
            pr = float(ir.get_inert_ratio_prnc(P))
            # float contours: same values, and the caller's array is left
            # alone (the raw ratio of the same array afterwards agrees)
            Pf = P.astype(np.float64)
            Pf0 = Pf.copy()
            prf = float(ir.get_inert_ratio_prnc(Pf))
            rawf = float(ir.get_inert_ratio_raw(Pf))
            if not np.array_equal(Pf, Pf0):
                out.append(("inertia ratio modifies the caller's contour",
                            str(case["poly"])))
            elif not (near(prf, pr, 1e-9) or (np.isnan(prf)
                                              and np.isnan(pr))) \
                    or not near(rawf, raw, 1e-9):
                out.append(("inertia ratios differ for a float contour",
                            "%s: %r/%r vs %r/%r" % (case["poly"], prf, rawf,
                                                    pr, raw)))
            rot = np.stack([-P[:, 1], P[:, 0]], axis=1) + 50
            pr2 = float(ir.get_inert_ratio_prnc(rot))
            if np.isfinite(pr):
                if pr < 1 - 1e-5:
                    out.append(("inert_ratio_prnc below one",
                                "%s: %r" % (case["poly"], pr)))
                if not near(pr, pr2, 2e-5):
                    out.append(("inert_ratio_prnc not rotation invariant",
                                "%s: %r vs %r" % (case["poly"], pr, pr2)))
        except BaseException as exc:
            out.append(("inertia ratio raises " + type(exc).__name__,
                        str(case["poly"])))
    return {"poly": case["poly"], "a2": a2}, out


# ----------------------------------------------------------------- volume
def _volume_case(case):
    from dclab.features.volume import vol_revolve
    r = np.array([p[0] for p in case["prof"]], dtype=float)
    z = np.array([p[1] for p in case["prof"]], dtype=float)
    out = []
    try:
        v = vol_revolve(r, z)
        want = math.pi / 3 * case["k"]
        if not near(v, want):
            out.append(("vol_revolve differs from the truncated-cone sum",
                        "%s: %r vs %r" % (case["prof"], v, want)))
        if not near(vol_revolve(r, z, point_scale=0.5), want / 8):
            out.append(("vol_revolve does not scale with point_scale^3",
                        str(case["prof"])))
    except BaseException as exc:
        out.append(("vol_revolve raises " + type(exc).__name__,
                    str(case["prof"])))
    # a densely sampled ellipse somewhere in a channel image (semi-axes from
    # the profile, centre away from the image origin): the volume with
    # fix_orientation is the positive one whatever orientation and pixel
    # size are given, it is the plain volume up to the sign and close to
    # the volume of the ellipsoid of revolution
    from dclab.features.volume import get_volume
    a_, b_ = 12.0 + 2 * (case["k"] % 5), 6.0 + (case["k"] % 3)
    t_ = np.linspace(0, 2 * np.pi, 240, endpoint=False)
    for cx, cy in ((15.0, 11.0), (60.0, 30.0), (170.0, 40.0)):
        el = np.stack([cx + a_ * np.cos(t_), cy + b_ * np.sin(t_)], axis=1)
        for pix in (1.0, 0.34, 0.5):
            exact = 4 / 3 * math.pi * a_ * b_ * b_ * pix ** 3
            try:
                vs = [get_volume(cc_, cx * pix, cy * pix, pix,
                                 fix_orientation=fo)
                      for cc_ in (el, el[::-1]) for fo in (False, True)]
            except BaseException as exc:
                out.append(("get_volume raises " + type(exc).__name__, ""))
                continue
            plain1, fix1, plain2, fix2 = vs
            if not (near(plain1, -plain2) and near(abs(plain1), abs(fix1))):
                out.append(("volume of a reversed contour is not the "
                            "negative volume", "%s" % (vs,)))
            elif not (fix1 > 0 and near(fix1, fix2)):
                out.append(("volume with fix_orientation depends on the "
                            "orientation given or is negative",
                            "centre (%s, %s) pixel size %s: %s" % (
                                cx, cy, pix, vs)))
            elif abs(fix1 - exact) > 0.01 * exact:
                out.append(("volume of a densely sampled ellipse is not the "
                            "volume of the ellipsoid", "%s vs %s" % (
                                fix1, exact)))
    return {"prof": case["prof"], "k": case["k"]}, out


# ------------------------------------------------------------- brightness
def _bright_case(case):
    from dclab.features import bright, bright_bc, bright_perc
    img = np.array(case["img"], dtype=np.uint8).reshape(2, 2)
    bg = np.array(case["bg"], dtype=np.uint8).reshape(2, 2)
    msk = np.zeros(4, dtype=bool)
    msk[[i - 1 for i in case["mask"]]] = True
    msk = msk.reshape(2, 2)
    out = []

    def rv(r):
        return r[0] / r[1]
    mean, sd = rv(case["mean"]), math.sqrt(rv(case["variance"]))
    p10, p90 = rv(case["p10"]), rv(case["p90"])

    def chk(name, got, want):
        if not near(float(got), want):
            out.append((name, "%s: %r vs %r" % (
                {k: case[k] for k in ("img", "bg", "mask")}, got, want)))
    try:
        a, s = bright_bc.get_bright_bc(msk, img, bg)
        chk("bright_bc mean differs from its definition", a, mean)
        chk("bright_bc SD differs from its definition", s, sd)
        a2, s2 = bright_bc.get_bright_bc(msk, img, bg, bg_off=5.0)
        chk("bright_bc offset does not shift the mean one-to-one", a2,
            mean - 5)
        chk("bright_bc offset changes the SD", s2, sd)
        p1, p9 = bright_perc.get_bright_perc(msk, img, bg)
        chk("bright_perc 10th percentile differs", p1, p10)
        chk("bright_perc 90th percentile differs", p9, p90)
        p1o, p9o = bright_perc.get_bright_perc(msk, img, bg, bg_off=5.0)
        chk("bright_perc offset does not shift the percentiles", p1o,
            p10 - 5)
        chk("bright_perc offset does not shift the percentiles", p9o,
            p90 - 5)
        # a background with fractional grey values (an averaged background):
        # half a grey level more background, half a level less brightness
        bgf = bg.astype(float) + 0.5
        a3, s3 = bright_bc.get_bright_bc(msk, img, bgf)
        chk("bright_bc with a fractional background differs from its "
            "definition", a3, mean - 0.5)
        chk("bright_bc SD changes with a fractional background", s3, sd)
        p1f, p9f = bright_perc.get_bright_perc(msk, img, bgf)
        chk("bright_perc with a fractional background differs", p1f,
            p10 - 0.5)
        chk("bright_perc with a fractional background differs", p9f,
            p90 - 0.5)
        # per-event containers: lists and stacked arrays, per-event offsets
        for cont in ("list", "array"):
            mm, ii, bb = [msk, msk], [img, img], [bg, bg]
            if cont == "array":
                mm, ii, bb = np.array(mm), np.array(ii), np.array(bb)
            off = np.array([5.0, 7.0])
            try:
                aa, ss = bright_bc.get_bright_bc(mm, ii, bb, bg_off=off)
                chk("bright_bc per-event offsets wrong (%s)" % cont, aa[1],
                    mean - 7)
            except BaseException as exc:
                out.append(("bright_bc with per-event offsets raises %s"
                            % type(exc).__name__, cont))
            try:
                q1, q9 = bright_perc.get_bright_perc(mm, ii, bb, bg_off=off)
                chk("bright_perc per-event offsets wrong (%s)" % cont, q1[1],
                    p10 - 7)
                chk("bright_perc per-event offsets wrong (%s)" % cont, q9[0],
                    p90 - 5)
            except BaseException as exc:
                out.append(("bright_perc with per-event offsets raises %s"
                            % type(exc).__name__, cont))
        if not any(case["bg"]):
            a0, s0 = bright.get_bright(msk, img)
            chk("bright mean differs from its definition", a0, mean)
            chk("bright SD differs from its definition", s0, sd)
    except BaseException as exc:
        out.append(("brightness function raises " + type(exc).__name__,
                    repr(exc)[:100]))
    return {k: case[k] for k in ("img", "bg", "mask")}, out


# -------------------------------------------------------------- crosstalk
def _ct_case(case):
    from dclab.features.fl_crosstalk import correct_crosstalk
    ct = case["ct"]                       # ct[j-1][i-1]: j -> i in percent
    sig = [float(v) for v in case["sig"]]
    meas = [v / 100.0 for v in case["spilled100"]]
    kw = {"ct%d%d" % (j, i): ct[j - 1][i - 1] / 100.0
          for j in (1, 2, 3) for i in (1, 2, 3) if i != j}
    out = []
    try:
        for ch in (1, 2, 3):
            got = correct_crosstalk(meas[0], meas[1], meas[2], ch, **kw)
            if not near(float(got), sig[ch - 1], 1e-9) and \
                    abs(float(got) - sig[ch - 1]) > 1e-9:
                out.append(("crosstalk correction does not invert the "
                            "spill-over", "%s channel %d: %r vs %r" % (
                                case, ch, got, sig[ch - 1])))
        # arrays of events
        arr = [np.array([m, 2 * m]) for m in meas]
        got = correct_crosstalk(arr[0], arr[1], arr[2], 2, **kw)
        if not np.allclose(got, [sig[1], 2 * sig[1]], rtol=1e-9, atol=1e-9):
            out.append(("crosstalk correction of arrays differs", str(case)))
    except BaseException as exc:
        out.append(("crosstalk correction raises " + type(exc).__name__,
                    repr(exc)[:100]))
    # the same law through the dataset features flN_max_ctc, for the three
    # channels and for every pair of channels (spill-over within the pair)
    import dclab
    for chans in ((1, 2, 3), (1, 2), (1, 3), (2, 3)):
        data = {"deform": np.array([0.1, 0.2])}
        for i in chans:
            m = sig[i - 1] + sum(ct[j - 1][i - 1] / 100.0 * sig[j - 1]
                                 for j in chans if j != i)
            data["fl%d_max" % i] = np.array([m, 2 * m])
        try:
            ds = dclab.new_dataset(data)
            for j in chans:
                for i in chans:
                    if i != j:
                        ds.config["calculation"]["crosstalk fl%d%d" % (
                            j, i)] = ct[j - 1][i - 1] / 100.0
            for i in chans:
                f = "fl%d_max_ctc" % i
                if f not in ds:
                    out.append(("%s not available with a complete spill "
                                "matrix (%d channels)" % (
                                    "flN_max_ctc", len(chans)), str(case)))
                    continue
                got = np.asarray(ds[f][:], dtype=float)
                if not np.allclose(got, [sig[i - 1], 2 * sig[i - 1]],
                                   rtol=1e-9, atol=1e-9):
                    out.append(("flN_max_ctc does not invert the spill-over "
                                "(%d channels)" % len(chans),
                                "%s channels %s %s: %r" % (case, chans, f,
                                                           got)))
        except BaseException as exc:
            out.append(("reading flN_max_ctc raises %s (%d channels, %s)" % (
                type(exc).__name__, len(chans),
                "matrix with a zero coefficient" if any(
                    ct[j - 1][i - 1] == 0 for j in chans for i in chans
                    if i != j) else "dense matrix"), repr(exc)[:100]))
    return {"ct": ct, "sig": case["sig"]}, out


def main(tier, seed, replay=None):
    import_dclab()
    ev = evidence.Evidence(PID, tier, seed)
    rep = findings.Reporter(PID, ev)
    ev.rule = ("five TLC enumerations with exact oracles: (1) every "
               "4-connected hole-free mask in a WxH window (reachable states "
               "of MaskSpec), placed in the interior and touching the border: "
               "contour points lie on the mask boundary and refilling the "
               "contour reproduces the mask, volume scales with pix^3 and "
               "flips sign with orientation; (2) every lattice polygon with "
               "3..4 vertices: contour moments vs Green's formula (integers), "
               "inert_ratio_raw^2 = mu20/mu02, axis-swap reciprocity, "
               "translation invariance, prnc >= 1 and invariant under 90 "
               "degree rotation; (3) truncated-cone sums for integer "
               "profiles; (4) mean/variance/percentiles of integer images "
               "under masks with background and offsets in every container; "
               "(5) spill/correct inversion for integer-percent matrices. "
               "non-trivial: all cases.")
    ev.assumptions = ["convergence of the volume to the analytic value for "
                      "finer spheres and the value of `tilt` are not decided "
                      "(asymptotic / transcendental, DESIGN section 7)",
                      "compiled contour finder as installed"]
    q = tier == "quick"
    W, H = (4, 4) if q else (4, 5)
    res = tlc.run("MaskSpec", "INIT Init\nNEXT Next\nCONSTRAINT Con\n"
                  "CONSTANTS\n W = %d\n H = %d\nCHECK_DEADLOCK FALSE\n" % (
                      W, H), workers=8, timeout=6000)
    ev.add_tlc("MaskSpec connected masks %dx%d" % (W, H), res)
    masks = dedup(res)
    if q:
        masks = par.sample(masks, 2, seed)
    parts = [(_mask_case, [(c, W, H) for c in masks], "mask")]
    mv = 4
    res = tlc.run("MomentsSpec", "INIT Init\nNEXT Next\nCONSTRAINT Emit\n"
                  "INVARIANT TranslationInvariant\nINVARIANT SwapReciprocal\n"
                  "CONSTANTS\n G = %d\n MinV = 3\n MaxV = %d\n"
                  "CHECK_DEADLOCK FALSE\n" % (3 if q else 4, mv), workers=8,
                  timeout=6000)
    if not res.ok:
        raise tlc.TLCError("MomentsSpec: %s\n%s" % (res.violated, res.cex))
    ev.add_tlc("MomentsSpec lattice polygons", res)
    polys = dedup(res)
    if len(polys) > 40000:
        polys = par.sample(polys, len(polys) // 40000 + 1, seed)
    parts.append((_moment_case, polys, "moments"))
    res = tlc.run("VolumeSpec", "INIT Init\nNEXT Next\nCONSTRAINT Emit\n"
                  "INVARIANT SignFlips\nINVARIANT CubicScaling\nCONSTANTS\n"
                  " MaxLen = %d\n Vals = {0, 1, 3}\nCHECK_DEADLOCK FALSE\n" % (
                      4 if q else 5), workers=8, timeout=6000)
    if not res.ok:
        raise tlc.TLCError("VolumeSpec: %s\n%s" % (res.violated, res.cex))
    ev.add_tlc("VolumeSpec profiles", res)
    parts.append((_volume_case, dedup(res), "volume"))
    res = tlc.run("BrightSpec", "INIT Init\nNEXT Next\nCONSTRAINT Emit\n"
                  "CONSTANTS\n NPix = 4\n PixVals = {0, 100, 255}\n"
                  " BgVals = {0, 200}\nCHECK_DEADLOCK FALSE\n", workers=8,
                  timeout=6000)
    ev.add_tlc("BrightSpec images", res)
    br = dedup(res)
    if q:
        br = par.sample(br, 4, seed)
    parts.append((_bright_case, br, "brightness"))
    res = tlc.run("CrosstalkSpec", "INIT Init\nNEXT Next\nCONSTRAINT Emit\n"
                  "CONSTANTS\n Pcts = {0, 20%s}\n Sigs = {0, 10, 250}\n"
                  "CHECK_DEADLOCK FALSE\n" % ("" if q else ", 5"), workers=8,
                  timeout=6000)
    ev.add_tlc("CrosstalkSpec matrices", res)
    parts.append((_ct_case, dedup(res), "crosstalk"))
    for fn, cases, name in parts:
        ev.extra["cases_" + name] = len(cases)
        for case, viols in par.pmap(fn, cases, chunk=100):
            ev.traces += 1
            ev.case(dict(case, part=name), nontrivial=True)
            for sig, detail in viols:
                rep.violation(sig, detail, case, size=len(str(case)))
    return rep.finish()
