"""X03 (beyond the listed properties) - which stored features are disregarded
as defective.

spec: storage/DefectSpec (documented decision table over the software
pipeline of a file, image width, repair / acquisition logs, time precision).
Spec -> code: every case of the table is materialised as an .rtdc file with
raw h5py (version string "recorder | dclab x | dclab y", versions on both
sides of every threshold) and opened with dclab; the stored features that are
offered as stored features are compared with the spec.

Not part of MANIFEST.json; run with ./check X03.
"""
import json
import shutil
import warnings

import numpy as np

from .. import evidence, findings, gen, par, tlc
from ..shims import import_dclab

PID = "X03"
CFG = ("INIT Init\nNEXT Next\nCONSTRAINT Emit\nINVARIANT CurrentIsClean\n"
       "INVARIANT RawCvxImpliesPrnc\nCHECK_DEADLOCK FALSE\n")
STORED = ("aspect", "time", "volume", "inert_ratio_cvx", "inert_ratio_prnc",
          "inert_ratio_raw", "tilt")
N = 4


def version_string(pipe):
    parts = []
    for e in pipe:
        v = ".".join(str(x) for x in e["v"])
        parts.append({"ShapeIn": "ShapeIn " + v, "plain": v,
                      "other": "AcquiSoft " + v, "dclab": "dclab " + v}[
                          e["sw"]])
    return " | ".join(parts)


def _case(job):
    import dclab
    import h5py
    import os
    case, root = job
    path = root / ("d%d_%d.rtdc" % (os.getpid(), _case.k))
    _case.k += 1
    viol = None
    try:
        with h5py.File(path, "w") as h5:
            meta = {k: dict(v) for k, v in gen.META.items()
                    if k != "fluorescence"}
            meta["experiment"]["event count"] = N
            meta["setup"].pop("software version")
            meta["imaging"].pop("frame rate")
            meta["imaging"]["roi size x"] = case["width"]
            if case["pipe"]:
                meta["setup"]["software version"] = version_string(
                    case["pipe"])
            if case["rate"] != "absent":
                meta["imaging"]["frame rate"] = 2000.0 \
                    if case["rate"] == "set" else 0.0
            for sec, kv in meta.items():
                for k, v in kv.items():
                    h5.attrs["%s:%s" % (sec, k)] = v
            ev = h5.create_group("events")
            ev.create_dataset("deform", data=np.linspace(0.01, 0.1, N))
            for f in STORED:
                data = np.linspace(1.0, 2.0, N)
                if f == "time" and case["f32"]:
                    data = data.astype(np.float32)
                ev.create_dataset(f, data=data)
            if case["frame"]:
                ev.create_dataset("frame", data=np.arange(
                    10, 10 + N, dtype=np.uint64))
            lg = h5.create_group("logs")
            for name in case["logs"]:
                lg.create_dataset(name, data=np.array([b"line"],
                                                      dtype="S20"))
        with warnings.catch_warnings():
            warnings.simplefilter("ignore")
            with dclab.new_dataset(path) as ds:
                got = sorted(set(ds.features_innate) & set(STORED))
        want = sorted(case["innate"])
        if got != want:
            which = sorted(set(got) ^ set(want))
            viol = ("stored feature %s %s" % (
                "/".join(which), "offered although defective"
                if set(got) - set(want) else "disregarded although sound"),
                "version '%s' width %s logs %s f32 %s frame %s rate %s" % (
                    version_string(case["pipe"]), case["width"],
                    case["logs"], case["f32"], case["frame"], case["rate"]))
    except (KeyboardInterrupt, SystemExit):
        raise
    except BaseException as exc:
        viol = ("opening the file raises %s" % type(exc).__name__,
                "version '%s': %r" % (version_string(case["pipe"]), exc))
    finally:
        if path.exists():
            path.unlink()
    return case, viol


_case.k = 0


def main(tier, seed, replay=None):
    import_dclab()
    ev = evidence.Evidence(PID, tier, seed, subdir="extra")
    rep = findings.Reporter(PID, ev)
    ev.rule = ("DefectSpec: every combination of software pipeline (8 "
               "recorders x up to two dclab steps out of 7 versions around "
               "the thresholds), image width (250/500/501), repair and "
               "acquisition logs, float32/float64 time, frame feature and "
               "frame rate is a file; the stored features offered as stored "
               "are compared. non-trivial = at least one feature is "
               "defective.")
    res = tlc.run("DefectSpec", CFG, workers=8, timeout=3000)
    ev.add_tlc("DefectSpec decision table", res)
    if not res.ok:
        raise tlc.TLCError("DefectSpec violates %s" % res.violated)
    seen, cases = set(), []
    for c in res.iter_tagged("H", consume=True):
        k = json.dumps(c, sort_keys=True)
        if k not in seen:
            seen.add(k)
            cases.append(c)
    if tier == "quick":
        cases = par.sample(cases, 3, seed)
    root = tlc.scratch_dir("vp_x03_")
    try:
        for case, viol in par.pmap(_case, [(c, root) for c in cases],
                                   chunk=100):
            ev.traces += 1
            ev.case(case, nontrivial=len(case["innate"]) < len(STORED))
            if viol:
                rep.violation(viol[0], viol[1], case, size=len(case["pipe"]))
    finally:
        shutil.rmtree(root, ignore_errors=True)
    return rep.finish()
