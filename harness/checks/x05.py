"""X05 (beyond the listed properties) - what a location string denotes.

spec: remote/LocatorSpec (locations assembled from scheme / host / port /
tail; DCOR, HTTP, S3, bucket-key classification stated on the parts; full
DCOR URL, S3 endpoint and object path).  Spec -> code: every case is handed
to is_dcor_url, is_http_url, is_s3_url, the DCOR basin's full-URL test,
RTDC_DCOR.get_full_url, get_endpoint_url and get_object_path.

Not part of MANIFEST.json; run with ./check X05.
"""
import json

from .. import evidence, findings, tlc
from ..shims import import_dclab

PID = "X05"
CFG = ("INIT Init\nNEXT Next\nCONSTRAINT Emit\nINVARIANT DcorHasApiOrId\n"
       "INVARIANT FullIsDcor\nCHECK_DEADLOCK FALSE\n")


def main(tier, seed, replay=None):
    import_dclab()
    from dclab.rtdc_dataset import fmt_dcor, fmt_s3
    from dclab import http_utils
    from dclab.rtdc_dataset.fmt_dcor import basin as dcor_basin
    ev = evidence.Evidence(PID, tier, seed, subdir="extra")
    rep = findings.Reporter(PID, ev)
    ev.rule = ("LocatorSpec: all locations assembled from 3 schemes x 3 hosts "
               "x 2 ports x 5 tails (identifier, api path, bucket/key with "
               "and without dots, single file name) x requested transport "
               "security x default host; classification and assembled URLs "
               "compared. non-trivial = the location denotes something.")
    res = tlc.run("LocatorSpec", CFG, workers=2, timeout=600)
    ev.add_tlc("LocatorSpec", res)
    if not res.ok:
        raise tlc.TLCError("LocatorSpec violates %s" % res.violated)
    seen = set()
    for c in res.iter_tagged("H"):
        k = json.dumps(c, sort_keys=True)
        if k in seen:
            continue
        seen.add(k)
        ev.traces += 1
        ev.case(c, nontrivial=c["dcor"] or c["http"] or c["s3"])
        loc = c["loc"]
        obs = {"dcor": bool(fmt_dcor.is_dcor_url(loc)),
               "http": bool(http_utils.is_http_url(loc)),
               "s3": bool(fmt_s3.is_s3_url(loc)),
               "fulldcor": bool(dcor_basin.REGEXP_FULL_DCOR_URL.match(loc))}
        for key, got in obs.items():
            if got != c[key]:
                rep.violation("a location is %staken for a %s location" % (
                    "" if got else "not ", key),
                    "%r: code %s, specification %s" % (loc, got, c[key]), c,
                    size=len(loc))
        if c["dcor"]:
            ssl = {"none": None, "yes": True, "no": False}[c["ssl"]]
            try:
                got = fmt_dcor.RTDC_DCOR.get_full_url(loc, ssl, c["hostarg"])
            except Exception as exc:
                got = "raises " + type(exc).__name__
            if got != c["fullurl"]:
                rep.violation("full DCOR URL differs", "%r use_ssl=%s host=%s:"
                              " %r, specified %r" % (loc, ssl, c["hostarg"],
                                                     got, c["fullurl"]), c,
                              size=len(loc))
        if c["endpoint"] != "n/a":
            got = fmt_s3.get_endpoint_url(loc)
            want = None if c["endpoint"] == "none" else c["endpoint"]
            if got != want:
                rep.violation("S3 endpoint differs", "%r: %r, specified %r"
                              % (loc, got, want), c, size=len(loc))
            got = fmt_s3.get_object_path(loc)
            if got != c["objpath"]:
                rep.violation("S3 object path differs", "%r: %r, specified "
                              "%r" % (loc, got, c["objpath"]), c,
                              size=len(loc))
    return rep.finish()
