"""C08 - Compress, repack, condense and tdms2rtdc preserve dataset content.

spec: storage/CopierSpec (layout descriptors x task pipelines; transcription
of h5ds_copy's case analysis).
"""
import contextlib
import hashlib
import io
import json
import warnings
import shutil
import zipfile

import numpy as np

from .. import evidence, findings, gen, par, tlc
from ..shims import import_dclab

PID = "C08"
CFG = ("INIT Init\nNEXT Next\nCONSTRAINT Emit\nINVARIANT "
       "EveryRoutePreserves\nCHECK_DEADLOCK FALSE\n")
LOG_LINES = ["short line", "x" * 130, "µm² – ünïcödé ✓",
             "°C " + "µ" * 68 + " (more bytes than characters)", "last"]


def layout(d, n, item_shape=()):
    import hdf5plugin
    kw = {}
    if d["storage"] == "contiguous":
        return kw
    c = {"smaller": 10, "equal": max(n, 1), "larger": n + 7}[d["chunk"]]
    kw["chunks"] = (c,) + tuple(item_shape)
    kw["maxshape"] = (None,) + tuple(item_shape)
    f = d["filter"]
    if f == "gzip":
        kw["compression"] = "gzip"
    elif f == "lzf":
        kw["compression"] = "lzf"
    elif f.startswith("zstd"):
        kw.update(hdf5plugin.Zstd(clevel=int(f[4:])))
    return kw


def make_input(path, d, sibling, extra="plain"):
    """materialise the descriptor with raw h5py (independent of dclab's
    writer)"""
    import h5py
    n = {"one": 1, "large": 3001}.get(d["len"], 25)
    ids = list(range(1, n + 1))
    with h5py.File(path, "w") as h5:
        meta = {k: dict(v) for k, v in gen.META.items()
                if k != "fluorescence"}
        meta["experiment"]["event count"] = n
        meta["setup"]["software version"] = "ShapeIn 2.4.0"
        if extra == "defective-aspect":
            meta["setup"]["software version"] = "ShapeIn 2.0.6"
        meta["user"] = {"note": "keep me", "number": 7}
        for sec, kv in meta.items():
            for k, v in kv.items():
                h5.attrs["%s:%s" % (sec, k)] = v
        ev = h5.create_group("events")
        for f in ("deform", "area_um", "frame", "pos_x", "size_x", "size_y"):
            data = gen.scalar(f, ids)
            ev.create_dataset(f, data=data, **layout(d, n))
        img = gen.image(ids)
        ds_img = ev.create_dataset("image", data=img,
                                   **layout(d, n, gen.IMG_SHAPE))
        ds_img.attrs["CLASS"] = np.bytes_("IMAGE")
        ds_img.attrs["IMAGE_VERSION"] = np.bytes_("1.2")
        ds_img.attrs["IMAGE_SUBCLASS"] = np.bytes_("IMAGE_GRAYSCALE")
        msk = (gen.mask(ids) * 255).astype(np.uint8)
        ev.create_dataset("mask", data=msk, **layout(d, n, gen.IMG_SHAPE))
        if extra == "defective-time":
            # float32 time next to frame + frame rate: dclab recomputes it
            ev.create_dataset("time", data=np.linspace(
                0, 1, n).astype(np.float32), **layout(d, n))
        elif extra == "defective-aspect":
            ev.create_dataset("aspect", data=np.full(n, 7.0), **layout(d, n))
        elif extra == "nan-values":
            # invalid values in a stored feature (and no stored summaries:
            # this file is not written by dclab)
            data = gen.scalar("userdef3", ids)
            data[::3] = np.nan
            ev.create_dataset("userdef3", data=data, **layout(d, n))
        elif extra == "unknown-feature":
            ev.create_dataset("peter", data=np.arange(n, dtype=float),
                              **layout(d, n))
        # log
        lg = h5.create_group("logs")
        lines = [] if d["len"] == "zero" else LOG_LINES
        if d["str"] == "fixed":
            arr = np.array([ln.encode("utf-8") for ln in lines],
                           dtype="S160")
            lg.create_dataset("srclog", data=arr, **layout(d, len(lines)))
        else:
            kw = layout(d, len(lines))
            dset = lg.create_dataset("srclog", shape=(len(lines),),
                                     dtype=h5py.string_dtype(), **kw)
            for i, ln in enumerate(lines):
                dset[i] = ln
        # table with attributes
        tb = h5.create_group("tables")
        rec = np.rec.fromarrays([np.arange(4.0), np.arange(4.0) * 2 - 1],
                                names=["a", "b"])
        t = tb.create_dataset("srctab", data=rec)
        t.attrs["COLOR_a"] = "red"
        # a second table (sorted after the first), with attributes of its own
        rec2 = np.rec.fromarrays([np.arange(3.0) + 0.5, np.arange(3.0) * 3,
                                  np.arange(3.0) - 7],
                                 names=["x", "y", "z"])
        t2 = tb.create_dataset("zzztab", data=rec2)
        t2.attrs["UNIT_x"] = "µm"
        t2.attrs["scale"] = 2.5
        # basins: a file basin (sibling holds bright_avg) and an internal one
        bg = h5.create_group("basins")
        bdef = {"description": "sibling", "format": "hdf5", "name": "sib",
                "type": "file", "features": ["bright_avg"],
                "mapping": "same", "paths": [str(sibling), sibling.name]}
        blines = json.dumps(bdef, indent=2).split("\\n")
        bg.create_dataset("aaaa1111" if extra != "nonscalar-internal-basin"
                          else "mmmm1111", data=np.array(
            [x.encode() for x in json.dumps(bdef, indent=2).split("\n")],
            dtype="S200"))
        be = h5.create_group("basin_events")
        be.create_dataset("userdef1", data=np.arange(3.0) + 0.5)
        ev.create_dataset("basinmap0", data=np.array(
            [i % 3 for i in range(n)], dtype=np.uint64))
        if extra == "mapped-basin":
            sib2 = sibling.with_name("sibling2.rtdc")
            make_sibling(sib2, 2 * n, feat="bright_sd")
            mdef = {"description": "mapped sibling", "format": "hdf5",
                    "name": "sib2", "type": "file", "features": ["bright_sd"],
                    "mapping": "basinmap1", "paths": [str(sib2), sib2.name]}
            bg.create_dataset("cccc3333", data=np.array(
                [x.encode() for x in json.dumps(mdef, indent=2).split("\n")],
                dtype="S200"))
            ev.create_dataset("basinmap1", data=np.array(
                [2 * i + 1 for i in range(n)], dtype=np.uint64))
        if extra == "nonscalar-internal-basin":
            # its key sorts before the file basin's
            be.create_dataset("image_bg", data=gen.image([1, 2, 3]))
            ndef = {"description": "internal image data",
                    "format": "h5dataset", "name": "intbg",
                    "type": "internal", "features": ["image_bg"],
                    "mapping": "basinmap0", "paths": ["basin_events"]}
            bg.create_dataset("aaaa0000", data=np.array(
                [x.encode() for x in json.dumps(ndef, indent=2).split("\n")],
                dtype="S200"))
        idef = {"description": "internal", "format": "h5dataset",
                "name": "int", "type": "internal", "features": ["userdef1"],
                "mapping": "basinmap0", "paths": ["basin_events"]}
        bg.create_dataset("bbbb2222", data=np.array(
            [x.encode() for x in json.dumps(idef, indent=2).split("\n")],
            dtype="S200"))
    return n


def make_sibling(path, n, feat="bright_avg"):
    import h5py
    with h5py.File(path, "w") as h5:
        meta = {k: dict(v) for k, v in gen.META.items()
                if k != "fluorescence"}
        meta["experiment"]["event count"] = n
        for sec, kv in meta.items():
            for k, v in kv.items():
                h5.attrs["%s:%s" % (sec, k)] = v
        h5.create_group("events").create_dataset(
            feat, data=gen.scalar(feat, range(1, n + 1)))


def sha(p):
    return hashlib.sha256(p.read_bytes()).hexdigest()


def lines_of(dset):
    return [x.decode("utf-8") if isinstance(x, bytes) else str(x)
            for x in dset[:]]


def compare(pin, pout, task, stripped, out, first, notcarried=()):
    """raw h5py comparison of input and output"""
    import h5py
    with h5py.File(pin, "r") as a, h5py.File(pout, "r") as b:
        if task.startswith("condense"):
            # the definitions of file basins are carried over (they are what
            # keeps the non-scalar and unstored features reachable)
            for k in ([] if "basins" in stripped else a.get("basins", {})):
                txt = "".join(lines_of(a["basins"][k]))
                if '"type": "file"' in txt and k not in b.get("basins", {}):
                    out.append(("file basin definition missing after %s"
                                % task, k))
            return
        for name in a["events"]:
            if name in notcarried:
                continue
            if name not in b["events"]:
                if name.startswith("basinmap") and "basins" in stripped:
                    continue
                out.append(("feature missing after %s" % task, name))
                continue
            x, y = a["events"][name][:], b["events"][name][:]
            if x.dtype != y.dtype or not np.array_equal(
                    x, y, equal_nan=x.dtype.kind == "f"):
                out.append(("feature values differ after %s (%s)" % (
                    task, "scalar" if x.ndim == 1 else "image"), name))
            for k in a["events"][name].attrs:
                va = a["events"][name].attrs[k]
                if k not in b["events"][name].attrs or not np.array_equal(
                        np.asarray(va),
                        np.asarray(b["events"][name].attrs[k])):
                    out.append(("dataset attribute lost after %s" % task,
                                "%s:%s" % (name, k)))
        if "logs" not in stripped:
            la = lines_of(a["logs"]["srclog"])
            if "srclog" in b.get("logs", {}):
                lb = lines_of(b["logs"]["srclog"])
            else:
                lb = []        # an empty log may be dropped
            if la != lb:
                out.append(("log lines differ after %s" % task,
                            "%s vs %s" % (lb[:3], la[:3])))
        elif "logs" in b and len(b["logs"]):
            keep = [k for k in b["logs"] if not k.startswith("dclab-")]
            if keep:
                out.append(("logs not stripped", str(keep)))
        for tname in a["tables"]:
            ta, tb_ = a["tables"][tname], b.get("tables", {}).get(tname)
            if tb_ is None or not np.array_equal(ta[:], tb_[:]):
                out.append(("table cells differ after %s" % task, tname))
            elif dict(ta.attrs) != dict(tb_.attrs):
                out.append(("table attributes lost after %s" % task, tname))
        for k in a.attrs:
            if k == "setup:software version":
                continue
            if k not in b.attrs or not np.array_equal(
                    np.asarray(a.attrs[k]), np.asarray(b.attrs[k])):
                out.append(("metadata differ after %s" % task, k))
        if "basins" not in stripped:
            for k in a["basins"]:
                if k not in b.get("basins", {}) or lines_of(
                        a["basins"][k]) != lines_of(b["basins"][k]):
                    out.append(("basin definition differs after %s" % task,
                                k))
            if "userdef1" not in b.get("basin_events", {}) or \
                    not np.array_equal(a["basin_events/userdef1"][:],
                                       b["basin_events/userdef1"][:]):
                out.append(("internal basin data lost after %s" % task, ""))
        elif "basins" in b and len(b["basins"]):
            out.append(("basins not stripped", ""))


def compare_dclab(pin, pout, task, stripped, out):
    """through dclab: scalar features (stored, basin-provided, computed)"""
    import dclab
    # condense without basin features reads the input with basins disabled:
    # what it promises are the scalar features of THAT view
    kw = {"enable_basins": False} if task == "condense-no-basin-features" \
        else {}
    with dclab.new_dataset(pin, **kw) as a, dclab.new_dataset(pout) as b:
        feats = [f for f in a.features_scalar]
        if "basins" in stripped:
            feats = [f for f in feats if f in a.features_innate
                     and not f.startswith("basinmap")]
        if task == "condense-no-ancillary":
            feats = [f for f in feats if f in a.features_innate
                     or f in a.features_basin]
        for f in feats:
            if f not in b:
                out.append(("scalar feature not available after %s (%s)" % (
                    task, "stored" if f in a.features_innate else
                    "basin-provided" if f in a.features_basin
                    else "computed"), f))
                continue
            if not np.allclose(np.asarray(a[f][:], dtype=float),
                               np.asarray(b[f][:], dtype=float),
                               rtol=1e-12, atol=0, equal_nan=True):
                out.append(("scalar feature differs after %s (%s)" % (
                    task, "stored" if f in a.features_innate else
                    "basin-provided" if f in a.features_basin
                    else "computed"), f))
                continue
            # what the feature says about itself (minimum, maximum, mean)
            fa, fb = a[f], b[f]
            if f in a.features_innate and f in b.features_innate and all(
                    hasattr(o, m) for o in (fa, fb)
                    for m in ("min", "max", "mean")):
                with np.errstate(all="ignore"), warnings.catch_warnings():
                    warnings.simplefilter("ignore")
                    sa = (fa.min(), fa.max(), fa.mean())
                    sb = (fb.min(), fb.max(), fb.mean())
                if not np.allclose(np.asarray(sa, dtype=float),
                                   np.asarray(sb, dtype=float), rtol=1e-12,
                                   atol=0, equal_nan=True):
                    out.append(("reported minimum/maximum/mean of a stored "
                                "feature differ after %s" % task,
                                "%s: %s -> %s" % (f, sa, sb)))
        if not task.startswith("condense"):
            for f in ("image", "mask"):
                if f not in b or not all(np.array_equal(a[f][i], b[f][i])
                                         for i in range(len(a))):
                    out.append(("non-scalar feature differs after %s"
                                % task, f))


def run_task(task, pin, pout):
    from dclab import cli
    with contextlib.redirect_stdout(io.StringIO()):
        if task == "compress":
            cli.compress(path_in=pin, path_out=pout, force=True)
        elif task.startswith("repack"):
            cli.repack(path_in=pin, path_out=pout,
                       strip_logs=task.endswith("logs"),
                       strip_basins=task.endswith("basins"))
        elif task == "condense":
            cli.condense(path_in=pin, path_out=pout)
        elif task == "condense-no-basin-features":
            cli.condense(path_in=pin, path_out=pout,
                         store_basin_features=False)
        else:
            cli.condense(path_in=pin, path_out=pout, ancillaries=False,
                         store_ancillary_features=False)


def _case(job):
    import os
    case, root = job
    d = root / ("c%d_%d" % (os.getpid(), _case.k))
    _case.k += 1
    d.mkdir()
    out = []
    descr = case["descr"]
    extra = case.get("extra", "plain")
    tag = "%s/%s/chunk %s/len %s/%s strings%s" % (
        descr["storage"], descr["filter"], descr["chunk"], descr["len"],
        descr["str"], "" if extra == "plain" else "/" + extra)
    try:
        pin = d / "in.rtdc"
        n = make_input(pin, descr, d / "sibling.rtdc", extra)
        make_sibling(d / "sibling.rtdc", n)
        cur, stripped = pin, set()
        for i, task in enumerate(case["pipe"]):
            h0 = sha(cur)
            nxt = d / ("out%d.rtdc" % i)
            req = nxt
            if extra == "sibling-output" and i == 0:
                # the output is requested next to the input under the
                # input's stem with another suffix: the task appends .rtdc
                req, nxt = d / "in.tmp", d / "in.tmp.rtdc"
            try:
                run_task(task, cur, req)
                if not cur.exists():
                    out.append(("input file removed by " + task, tag))
                    break
            except BaseException as exc:
                out.append(("%s raises %s (%s strings, len %s)" % (
                    task, type(exc).__name__, descr["str"], descr["len"]),
                    "%r layout %s" % (exc, tag)))
                break
            if sha(cur) != h0:
                out.append(("input file modified by " + task, tag))
            now = set(case["stripped"][i])
            before = len(out)
            if cur == pin or not any(t.startswith("condense")
                                     for t in case["pipe"][:i]):
                compare(pin, nxt, task, stripped | now, out, i == 0,
                        case.get("notcarried", ()))
            try:
                compare_dclab(pin, nxt, task, stripped | now, out)
            except BaseException as exc:
                out.append(("output of %s cannot be read (%s)" % (
                    task, type(exc).__name__), "%r %s" % (exc, tag)))
            out[before:] = [(s, "%s | layout %s | pipeline %s" % (
                t, tag, case["pipe"])) for s, t in out[before:]]
            stripped |= now
            if task.startswith("condense"):
                break       # a condensed file is a different kind of file
            cur = nxt
    finally:
        shutil.rmtree(d, ignore_errors=True)
    return {"descr": descr, "pipe": case["pipe"], "extra": extra}, out


_case.k = 0


def tdms_cases(root):
    """tdms2rtdc: features of the output equal the .tdms source"""
    import dclab
    from dclab import cli
    out, n_ok = [], 0
    # (fixtures the repository's own tdms2rtdc tests convert; the others
    # are truncated and cannot be converted completely)
    for name in ("fmt-tdms_2fl-no-image_2017.zip",
                 "fmt-tdms_shapein-2.0.1-no-image_2017.zip"):
        d = root / name[:-4]
        d.mkdir(exist_ok=True)
        with zipfile.ZipFile("/repo/tests/data/" + name) as zf:
            zf.extractall(d)
        tdms = [t for t in sorted(d.rglob("*.tdms"))
                if not t.name.endswith("_traces.tdms")]
        if not tdms:
            continue
        h0 = sha(tdms[0])
        po = root / (name[:-4] + ".rtdc")
        try:
            with contextlib.redirect_stdout(io.StringIO()):
                cli.tdms2rtdc(path_tdms=tdms[0], path_rtdc=po,
                              skip_initial_empty_image=False,
                              skip_final_empty_image=False)
            with dclab.new_dataset(tdms[0]) as a, dclab.new_dataset(po) as b:
                for f in a.features_innate:
                    if f in ("image", "contour", "mask", "trace"):
                        continue
                    if f not in b.features_innate:
                        out.append(("tdms2rtdc: feature of the .tdms source "
                                    "is missing", "%s %s" % (name, f)))
                        continue
                    va = np.asarray(a[f][:], dtype=float)
                    vb = np.asarray(b[f][:], dtype=float)
                    if not np.allclose(va, vb, rtol=1e-12, atol=0,
                                       equal_nan=True):
                        diff = va != vb
                        why = ("negative values stored as 0 by the unsigned "
                               "integer feature type"
                               if np.all(va[diff] < 0) and np.all(
                                   vb[diff] == 0) else "values changed")
                        out.append(("tdms2rtdc: feature differs from the "
                                    ".tdms source (%s)" % why,
                                    "%s %s" % (name, f)))
            n_ok += 1
        except BaseException as exc:
            out.append(("tdms2rtdc raises " + type(exc).__name__,
                        "%s %r" % (name, exc)))
        if sha(tdms[0]) != h0:
            out.append(("tdms2rtdc modifies its input", name))
    return n_ok, out


def main(tier, seed, replay=None):
    import_dclab()
    ev = evidence.Evidence(PID, tier, seed)
    rep = findings.Reporter(PID, ev)
    ev.rule = ("CopierSpec enumerates every valid storage layout descriptor "
               "(contiguous/chunked x none/gzip/lzf/zstd1/zstd5/zstd9 x chunk "
               "smaller/equal/larger than the data x one/many/3001 events (3001: "
               "HDF5 splits an unchunked destination into several chunks with "
               "a remainder)/empty "
               "log x fixed/variable-length log strings) x extras (defective "
               "time / aspect markers, unknown feature, mapped file basin; "
               "on two layouts) x every pipeline of "
               "1..2 tasks (compress, repack, repack stripping logs or "
               "basins, condense with/without ancillary features); the input "
               "is materialised with raw h5py (features, image with "
               "attributes, log, compound table with attributes, user "
               "metadata, file basin, internal basin), each task runs "
               "in-process, and input and output are compared with raw h5py "
               "(values, dtypes, attributes, logs, tables, metadata, basin "
               "definitions) and through dclab (stored, basin-provided and "
               "computed scalar features); sha256 of the input before/after. "
               "tdms fixtures are converted and compared. non-trivial = "
               "pipeline of two tasks or non-default layout.")
    ev.assumptions = ["compression filters are lossless",
                      "unknown (undefined) feature names are outside the "
                      "claim"]
    q = tier == "quick"
    res = tlc.run("CopierSpec", CFG, workers=8, timeout=3000)
    if not res.ok:
        raise tlc.TLCError("CopierSpec: %s\n%s" % (res.violated, res.cex))
    ev.add_tlc("CopierSpec layouts x pipelines", res)
    seen, cases = set(), []
    for c in res.tagged("H"):
        s = str(c)
        if s not in seen:
            seen.add(s)
            cases.append(c)
    cases = par.sample(cases, 6 if q else 1, seed)
    root = tlc.scratch_dir("vp_c08_")
    try:
        for case, viols in par.pmap(_case, [(c, root) for c in cases],
                                    chunk=8):
            ev.traces += 1
            ev.case(case, nontrivial=True)
            for sig, detail in viols:
                rep.violation(sig, detail, case, size=len(case["pipe"]))
        n_ok, viols = tdms_cases(root)
        ev.extra["tdms_conversions"] = n_ok
        ev.traces += n_ok
        for sig, detail in viols:
            rep.violation(sig, detail, {}, size=9)
    finally:
        shutil.rmtree(root, ignore_errors=True)
    return rep.finish()
