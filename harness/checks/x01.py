"""X01 (beyond the listed properties) - which features a dataset offers.

specs: dataset/FeatureSetsSpec (least fixed point of the documented recipe
table), MC_FeatureSets (three clusters of names).  Spec -> code: every
enumerated scenario (stored features, configuration) with its sequence of
reads and configuration edits is executed on a real .rtdc file; after every
step `in`, `features`, `features_innate`, `features_ancillary`,
`features_loaded` and the outcome of ds[f] are compared with the spec.

Not part of MANIFEST.json (the listed properties are fixed): run with
./check X01; evidence goes to evidence/extra/X01.json.
"""
import shutil
import warnings

import numpy as np

from .. import evidence, findings, gen, par, tlc
from ..shims import import_dclab

PID = "X01"
N = 5

CFG = """INIT {init}
NEXT FNext
CONSTRAINT HCon
INVARIANT Monotone
INVARIANT Sound
PROPERTY ReadOnlyAccess
CONSTANTS
 Names <- {c}Names
 Storable <- {c}Storable
 Flags <- {c}Flags
 Media <- {media}
 Recipes <- {c}Recipes
 Rapid <- {rapid}
 Refusals <- {refusals}
 MaxDepth = {d}
CHECK_DEADLOCK FALSE
"""

#: configuration key groups of the spec -> (section, key, value)
FLAG_KEYS = {
    "pixel": [("imaging", "pixel size", 0.34)],
    "rate": [("imaging", "frame rate", 2000.0)],
    "lut": [("calculation", "emodulus lut", "LE-2D-FEM-19")],
    "temperature": [("calculation", "emodulus temperature", 23.0)],
    "viscosity": [("calculation", "emodulus viscosity", 5.0)],
    "ct12": [("calculation", "crosstalk fl21", 0.1),
             ("calculation", "crosstalk fl12", 0.05)],
    "ct13": [("calculation", "crosstalk fl31", 0.02),
             ("calculation", "crosstalk fl13", 0.03)],
    "ct23": [("calculation", "crosstalk fl32", 0.04),
             ("calculation", "crosstalk fl23", 0.01)],
}
MEDIUM = {"known": "CellCarrier", "other": "other"}


def feature_data(f):
    ids = np.arange(1, N + 1)
    if f in ("mask", "image", "image_bg"):
        if f == "mask":
            a = np.zeros((N,) + gen.IMG_SHAPE, dtype=bool)
            for i in range(N):
                a[i, 4:4 + 5 + i % 3, 6:6 + 8 + i % 2] = True
            return a
        rng = np.random.default_rng(5 if f == "image" else 6)
        return rng.integers(20, 200, size=(N,) + gen.IMG_SHAPE,
                            dtype=np.uint8)
    if f == "circ":
        return 0.99 - ids / 100.0
    if f == "deform":
        return ids / 100.0
    if f in ("area_cvx", "area_msd"):
        return 300.0 + ids * (7 if f == "area_cvx" else 6)
    if f == "area_um":
        return 40.0 + ids * 3
    if f == "temp":
        return 22.0 + ids / 10.0
    if f in ("pos_x", "pos_y"):
        return 3.0 + ids * 0.1
    if f in ("size_x", "size_y"):
        return 5.0 + ids * (0.3 if f == "size_x" else 0.2)
    if f == "frame":
        return (100 + ids * 3).astype(np.uint64)
    if f.startswith("fl") and f.endswith("_max"):
        return (ids * 100 + int(f[2])).astype(float)
    raise ValueError(f)


def build(path, innate, flags, medium):
    from dclab.rtdc_dataset import RTDCWriter
    m = {k: dict(v) for k, v in gen.META.items()}
    m["fluorescence"].update({"channel count": 3, "channels installed": 3,
                              "channel 2 name": "FL2",
                              "channel 3 name": "FL3"})
    m["imaging"].pop("pixel size")
    m["imaging"].pop("frame rate")
    m["setup"].pop("medium")
    calc = {}
    for c in flags:
        for sec, key, val in FLAG_KEYS[c]:
            (calc if sec == "calculation" else m[sec])[key] = val
    if medium in MEDIUM:
        calc["emodulus medium"] = MEDIUM[medium]
    with RTDCWriter(path, mode="reset") as hw:
        hw.store_metadata(m)
        for f in sorted(innate):
            hw.store_feature(f, feature_data(f))
    return calc


def observe(ds, names):
    with warnings.catch_warnings():
        warnings.simplefilter("ignore")
        feats = set(ds.features)
        return {
            "contains": {f for f in names if f in ds},
            "features": feats & set(names),
            "innate": set(ds.features_innate) & set(names),
            "anc": set(ds.features_ancillary) & set(names),
            "loaded": set(ds.features_loaded) & set(names),
            "scalar_ok": set(ds.features_scalar) <= feats,
            "loaded_all": set(ds.features_loaded),
            "features_all": feats,
        }


def _replay(job):
    import dclab
    import os
    hist_, names, root = job
    d = root / ("x%d_%d" % (os.getpid(), _replay.n))
    _replay.n += 1
    d.mkdir()
    steps, viol = [], None
    try:
        st0 = hist_[0]["step"]
        path = d / "f.rtdc"
        calc = build(path, st0["innate"], st0["flags"], st0["medium"])
        with warnings.catch_warnings():
            warnings.simplefilter("ignore")
            ds = dclab.new_dataset(path)
        ds.config["calculation"].update(calc)
        try:
            for i, rec in enumerate(hist_):
                st = rec["step"]
                a = st["a"]
                try:
                    if a == "open":
                        steps.append("open %s|%s|%s" % (
                            ",".join(sorted(st["innate"])),
                            ",".join(sorted(st["flags"])), st["medium"]))
                    elif a == "access":
                        steps.append("read " + st["f"])
                        try:
                            with warnings.catch_warnings():
                                warnings.simplefilter("ignore")
                                data = ds[st["f"]]
                                n = len(data)
                            out = "data" if n == len(ds) else "data of " \
                                "length %d instead of %d" % (n, len(ds))
                        except KeyError:
                            out = "KeyError"
                        except (KeyboardInterrupt, SystemExit):
                            raise
                        except BaseException as exc:
                            out = type(exc).__name__
                        if out != st["out"]:
                            viol = ("reading a feature gives %s where %s is "
                                    "specified" % (out.split(" of ")[0],
                                                   st["out"]),
                                    "steps %s: %s" % (steps, out), i)
                            break
                    elif a == "setflag":
                        steps.append("set " + st["c"])
                        for sec, key, val in FLAG_KEYS[st["c"]]:
                            ds.config[sec][key] = val
                    elif a == "clearflag":
                        steps.append("clear " + st["c"])
                        for sec, key, val in FLAG_KEYS[st["c"]]:
                            ds.config[sec].pop(key)
                    elif a == "setmedium":
                        steps.append("medium " + st["m"])
                        if st["m"] in MEDIUM:
                            ds.config["calculation"]["emodulus medium"] = \
                                MEDIUM[st["m"]]
                        else:
                            ds.config["calculation"].pop("emodulus medium")
                    obs = observe(ds, names)
                except Exception as exc:
                    viol = ("%s raises %s" % (a, type(exc).__name__),
                            "steps %s: %r" % (steps, exc), i)
                    break
                want = {k: set(v) for k, v in rec["obs"].items()}
                for what, got, exp in (
                        ("'in'", obs["contains"], want["avail"]),
                        ("features", obs["features"], want["avail"]),
                        ("features_innate", obs["innate"], want["innate"]),
                        ("features_ancillary", obs["anc"], want["anc"])):
                    if got != exp:
                        viol = ("%s differs from what is offered" % what,
                                "steps %s: extra %s missing %s" % (
                                    steps, sorted(got - exp),
                                    sorted(exp - got)), i)
                        break
                if viol:
                    break
                if not want["mustloaded"] <= obs["loaded"]:
                    viol = ("features_loaded lacks a stored, rapid or "
                            "accessed feature", "steps %s: missing %s" % (
                                steps, sorted(want["mustloaded"]
                                              - obs["loaded"])), i)
                    break
                if not obs["scalar_ok"]:
                    viol = ("features_scalar is not part of features",
                            "steps %s" % steps, i)
                    break
            if viol is None:
                # a hierarchy child created now offers what its parent offers
                with warnings.catch_warnings():
                    warnings.simplefilter("ignore")
                    ch = dclab.new_dataset(ds)
                    cf = set(ch.features) & set(names)
                if cf != set(hist_[-1]["obs"]["avail"]):
                    viol = ("a new hierarchy child offers other features "
                            "than its parent", "steps %s: extra %s missing "
                            "%s" % (steps, sorted(cf - set(
                                hist_[-1]["obs"]["avail"])), sorted(set(
                                    hist_[-1]["obs"]["avail"]) - cf)),
                            len(hist_))
        finally:
            ds.close()
    except Exception as exc:
        viol = ("scenario raises %s" % type(exc).__name__,
                "steps %s: %r" % (steps, exc), 0)
    finally:
        shutil.rmtree(d, ignore_errors=True)
    return {"steps": steps}, viol


_replay.n = 0

NAMES = {}


def main(tier, seed, replay=None):
    import_dclab()
    ev = evidence.Evidence(PID, tier, seed, subdir="extra")
    rep = findings.Reporter(PID, ev)
    ev.rule = ("FeatureSetsSpec: what a dataset offers is the least fixed "
               "point of the documented recipe table over the stored "
               "features and the configuration; every scenario (stored "
               "subset x configuration) of three clusters with all "
               "sequences of reads and configuration edits up to the depth "
               "bound is executed on a real file and `in`, features, "
               "features_innate, features_ancillary, features_loaded, the "
               "outcome of ds[f] and a new hierarchy child are compared. "
               "non-trivial = at least one read or edit.")
    ev.assumptions = ["five events per file; values are arbitrary but valid",
                      "basins and temporary features are covered by C06/C07"]
    q = tier == "quick"
    plans = [("F", "FInit", "NoMedia", "NoRapid", 3 if q else 4,
              3 if q else 4),
             ("E", "FInit", "AnyMedium", "ERapid", 2, 24 if q else 2),
             ("E", "ERichInit", "AnyMedium", "ERapid", 4 if q else 5,
              3 if q else 4),
             ("I", "FInit", "NoMedia", "IRapid", 2, 40 if q else 4),
             ("I", "IRichInit", "NoMedia", "IRapid", 3 if q else 4,
              1 if q else 6)]
    root = tlc.scratch_dir("vp_x01_")
    try:
        for c, init, media, rapid, d, keep in plans:
            res = tlc.run("MC_FeatureSets", CFG.format(
                init=init, c=c, media=media, rapid=rapid, d=d,
                refusals={"F": "FRefusals", "E": "ERefusals"}.get(
                    c, "NoRefusals")), workers=8,
                timeout=3000)
            ev.add_tlc("MC_FeatureSets cluster %s %s depth %d" % (c, init, d),
                       res)
            if not res.ok:
                raise tlc.TLCError("FeatureSetsSpec violates %s" %
                                   res.violated)
            hs = list(res.iter_tagged("H", consume=True))
            if keep > 1:
                hs = par.sample(hs, keep, seed)
            names = sorted(hs[0][0]["step"]["names"]) if hs else []
            ev.extra["histories_%s_%s" % (c, init)] = len(hs)
            for case, viol in par.pmap(_replay, [(h, names, root)
                                                 for h in hs], chunk=40):
                ev.traces += 1
                ev.case(case, nontrivial=len(case["steps"]) >= 2)
                if viol:
                    rep.violation(viol[0], viol[1], case, size=viol[2])
    finally:
        shutil.rmtree(root, ignore_errors=True)
    return rep.finish()
