"""C17 - Cached computations are indistinguishable from fresh ones.

specs: cache/CacheSpec (oracle: every call returns Fresh), CacheImpl (design:
key function, FIFO), FileHashSpec.
"""
import os
import random
import zlib
import shutil

import numpy as np

from .. import evidence, findings, par, tlc
from ..shims import import_dclab

PID = "C17"

BASE = """
CONSTANTS
 Funcs <- MCFuncs
 Pool <- MCPool
 Sem <- MCSem
 Args <- MCArgs
 M = {m}
 KeyTyped = {kt}
 Aliased = {al}
 MaxDepth = {d}
CHECK_DEADLOCK FALSE
"""
IMPL = ("INIT MCImplInit\nNEXT MCImplNext\nCONSTRAINT Depth\n"
        "INVARIANT ReturnsFresh\nINVARIANT FifoConsistent\n")
HIST = "INIT HInit\nNEXT HNext\nCONSTRAINT HCon\n"
FH = """
INIT FInit
NEXT FNext
CONSTANTS
 Files = {1, 2}
 Contents = {1, 2, 3}
 MaxDepth = %d
CONSTRAINT HCon
INVARIANT HashCurrent
CHECK_DEADLOCK FALSE
"""


def make_pool():
    """concretisation of MC_Cache's adversarial pool"""
    rs = np.random.RandomState(17)
    xf = (rs.rand(60) * 0.5 + 0.25).astype(np.float32)
    X = xf.view(np.float64)                  # 30 doubles, same bytes
    big = np.zeros(30)
    big[::2] = X[0:15]
    Y = rs.rand(30) * 3 + 1
    pool = {
        1: ((X[0:10], X[10:20], X[20:25], X[25:30]), {}),
        2: ((X[0:5], X[5:10], X[10:20], X[20:30]), {}),
        3: ((X[0:15], X[15:30]), {}),
        4: ((xf[0:30], xf[30:60]), {}),
        5: ((X[0:15].reshape(15, 1), X[15:30].reshape(15, 1)), {}),
        6: ((big[::2], X[15:30]), {}),
        7: ((Y[0:10], Y[10:20], Y[20:25], Y[25:30]), {}),
        8: ((X[0:10], X[10:20]), {"xout": X[20:25], "yout": X[25:30]}),
        9: ((Y[0:15], Y[15:30]), {}),
        10: ((Y[0:15], Y[15:30]), {}),
    }
    # 11 / 12: doubles whose bytes are finite, ordinary numbers in both byte
    # orders (sign/exponent bytes at both ends), native and swapped view
    raw = rs.randint(0, 256, size=(30, 8)).astype(np.uint8)
    raw[:, 0] = 0x3F
    raw[:, 1] = 0xE0 | (raw[:, 1] & 0x0F)
    raw[:, 7] = 0x3F
    raw[:, 6] = 0xD0 | (raw[:, 6] & 0x0F)
    B = raw.reshape(-1).view("<f8")
    S = raw.reshape(-1).view(">f8")
    pool[11] = ((B[0:15], B[15:30]), {})
    pool[12] = ((S[0:15], S[15:30]), {})
    # 15 / 16: square arrays and their transposes (views of the same memory)
    Q = (rs.rand(4, 4) * 0.5 + 0.25)
    R = (rs.rand(4, 4) * 3 + 1)
    pool[15] = ((Q, R), {})
    pool[16] = ((Q.T, R.T), {})
    pool[13] = ((Y[0:15], Y[15:30]), {})
    pool[14] = ((Y[0:15], Y[15:30]), {})
    return pool


def grid_args(p, args):
    """arguments of downsample_grid for pool member p: members 9 and 10 are
    the pair whose non-array arguments have the same concatenated str()"""
    x, y = args[0], args[1]
    if p in (15, 16):
        # two-dimensional input is handed over as it is
        return (x, y, 5, False, False)
    a = np.ravel(x) if x.ndim > 1 else x
    b = np.ravel(y) if y.ndim > 1 else y
    if p == 9:
        return (a, b, 1, 0, False)
    if p == 10:
        return (a, b, 10, False)
    return (a, b, int(np.size(x)) // 2 + 1, False, True)


def functions():
    from dclab import kde_methods as km, downsampling as dsm

    def raw(public):
        """the undecorated equivalent of a public kde function"""
        for cell in public.__closure__ or ():
            c = cell.cell_contents
            if hasattr(c, "func"):
                return km.ignore_nan_inf(c.func)
        raise RuntimeError("no Cache object found in closure")

    return {1: (km.kde_histogram, raw(km.kde_histogram)),
            2: (km.kde_gauss, raw(km.kde_gauss)),
            3: (km.kde_multivariate, raw(km.kde_multivariate)),
            4: (dsm.downsample_grid, dsm.downsample_grid.func)}


def call_args(ctx, f, p):
    args, kw = ctx["pool"][p]
    if f == 4 and p in (13, 14):
        # keyword arguments in different orders: the values read in the
        # order given coincide (7, True, False), the bindings do not
        if p == 13:
            return args, {"samples": 7, "remove_invalid": True,
                          "ret_idx": False}
        return args, {"samples": 7, "ret_idx": True, "remove_invalid": False}
    if f == 4:
        return grid_args(p, args), {}
    return args, kw


def outcome(fn, args, kwargs):
    try:
        r = fn(*[np.array(a, copy=True, order="K") if False else a
                 for a in args], **kwargs)
    except Exception as exc:
        return ("raised", type(exc).__name__)
    if isinstance(r, tuple):
        return ("ok", tuple(np.array(x, copy=True) for x in r))
    return ("ok", (np.array(r, copy=True),))


def same_outcome(a, b):
    if a[0] != b[0]:
        return False
    if a[0] == "raised":
        return a[1] == b[1]
    if len(a[1]) != len(b[1]):
        return False
    for x, y in zip(a[1], b[1]):
        if x.shape != y.shape or x.dtype != y.dtype:
            return False
        if not np.array_equal(x, y, equal_nan=(x.dtype.kind == "f")):
            return False
    return True


_CTX = {}


def _ctx():
    if not _CTX:
        _CTX["pool"] = make_pool()
        _CTX["fn"] = functions()
        fresh = {}
        for f, (_, rawfn) in _CTX["fn"].items():
            for p in _CTX["pool"]:
                args, kw = call_args(_CTX, f, p)
                cargs = [np.array(a, copy=True) if isinstance(a, np.ndarray)
                         else a for a in args]
                ckw = {k: np.array(v, copy=True) for k, v in kw.items()}
                fresh[(f, p)] = outcome(rawfn, cargs, ckw)
        _CTX["fresh"] = fresh
    return _CTX


def describe(f, p, obs, fresh):
    kinds = {1: "split-args", 2: "split-args", 4: "dtype", 5: "shape",
             6: "strided", 8: "keyword", 9: "scalar-adjacent",
             10: "scalar-adjacent"}
    if obs[0] == "raised" and fresh[0] == "ok":
        return "cached call raises %s for %s argument" % (
            obs[1], kinds.get(p, "plain"))
    return "cached call differs from fresh"


def _replay(job):
    m, sched = job
    from dclab import cached
    ctx = _ctx()
    cached.MAX_SIZE = m
    # same effect as Cache.clear_cache() without its gc.collect() (20 ms)
    cached.Cache._keys = []
    cached.Cache._cache = {}
    obs = []
    viol = None
    for i, (f, p) in enumerate(sched):
        args, kw = call_args(ctx, f, p)
        o = outcome(ctx["fn"][f][0], args, kw)
        ok = same_outcome(o, ctx["fresh"][(f, p)])
        obs.append(bool(ok))
        if not ok and viol is None:
            prior = sorted({q for g, q in sched[:i] if g == f})
            viol = (describe(f, p, o, ctx["fresh"][(f, p)]),
                    "M=%d step %d f=%d pool=%d after pools %s: %s vs fresh %s"
                    % (m, i, f, p, prior, str(o)[:150],
                       str(ctx["fresh"][(f, p)])[:150]), i)
    consistent = (len(cached.Cache._keys) <= m and
                  set(cached.Cache._keys) == set(cached.Cache._cache))
    if not consistent and viol is None:
        viol = ("cache exceeds capacity or key list inconsistent",
                "M=%d keys=%d entries=%d" % (m, len(cached.Cache._keys),
                                             len(cached.Cache._cache)),
                len(sched))
    return {"M": m, "schedule": [list(s) for s in sched],
            "fresh_equal": obs}, viol


def long_sessions(ev, rep, rng, n, length):
    """code -> spec at the real capacity (100): several hundred calls"""
    from dclab import cached
    ctx = _ctx()
    cached.MAX_SIZE = 100
    rs = np.random.RandomState(rng.randrange(10**6))
    big_pool = dict(ctx["pool"])
    fresh = dict(ctx["fresh"])
    # many more distinct arguments than the capacity
    for i in range(100, 100 + 140):
        k = rs.randint(8, 40)
        a, b = rs.rand(k), rs.rand(k)
        big_pool[i] = ((a, b), {})
    for _ in range(n):
        cached.Cache.clear_cache()
        steps = []
        for i in range(length):
            f = rng.choice([1, 2, 3, 4])
            p = rng.choice(list(big_pool)) if rng.random() < 0.8 \
                else rng.choice([1, 2, 3, 4, 5, 6, 7, 8, 9, 10])
            if p in ctx["pool"]:
                args, kw = call_args(ctx, f, p)
            else:
                args, kw = big_pool[p]
                if f == 4:
                    args, kw = grid_args(p, args), {}
            if (f, p) not in fresh:
                fresh[(f, p)] = outcome(
                    ctx["fn"][f][1],
                    [np.array(a, copy=True) if isinstance(a, np.ndarray)
                     else a for a in args],
                    {k: np.array(v, copy=True) for k, v in kw.items()})
            o = outcome(ctx["fn"][f][0], args, kw)
            ok = same_outcome(o, fresh[(f, p)])
            steps.append([f, p, bool(ok)])
            if not ok:
                rep.violation(describe(f, p, o, fresh[(f, p)]),
                              "long session step %d f=%d pool=%d" % (i, f, p),
                              {"steps": steps[-30:]}, size=1000 + i)
                break
            if len(cached.Cache._keys) > 100:
                rep.violation("cache exceeds capacity or key list "
                              "inconsistent", "len=%d" % len(
                                  cached.Cache._keys), {"steps": steps[-5:]},
                              size=2000)
                break
        ev.traces += 1
        ev.case({"long_session_calls": len(steps),
                 "tail": steps[-3:]}, nontrivial=True)


def interface_mutation(ev, rep, scratch):
    """modifying a result obtained through the dataset interface never
    alters what later calls return"""
    import dclab
    from dclab.rtdc_dataset import RTDCWriter
    rs = np.random.RandomState(5)
    n = 40
    img = (rs.rand(n, 20, 24) * 60).astype(np.uint8)
    mask = np.zeros((n, 20, 24), dtype=bool)
    for i in range(n):
        mask[i, 5:5 + 4 + i % 5, 6:6 + 5 + i % 7] = True
    data = {"deform": rs.rand(n) * 0.2, "area_um": rs.rand(n) * 100 + 20,
            "bright_avg": rs.rand(n) * 50,
            "fl1_max": (rs.rand(n) * 1000).astype(np.uint32)}
    path = scratch / "src.rtdc"
    with RTDCWriter(path, mode="reset") as hw:
        hw.store_metadata({"experiment": {"sample": "v", "run index": 1,
                                          "run identifier": "verif-c17"},
                           "imaging": {"pixel size": 0.34,
                                       "roi size x": 24, "roi size y": 20},
                           "setup": {"channel width": 20, "flow rate": 0.04,
                                     "chip region": "channel",
                                     "medium": "CellCarrier"}})
        for k, v in data.items():
            hw.store_feature(k, v)
        hw.store_feature("image", img)
        hw.store_feature("mask", mask)
    bpath = scratch / "basin.rtdc"
    with RTDCWriter(bpath, mode="reset") as hw:
        hw.store_metadata({"experiment": {"sample": "v", "run index": 1,
                                          "run identifier": "verif-c17"},
                           "imaging": {"pixel size": 0.34},
                           "setup": {"channel width": 20, "flow rate": 0.04,
                                     "chip region": "channel"}})
        hw.store_feature("deform", data["deform"])
        hw.store_basin("src", "file", "hdf5", [str(path)],
                       basin_feats=["area_um", "bright_avg", "image",
                                    "fl1_max"])

    def kinds():
        yield "dict", dclab.new_dataset({k: v for k, v in data.items()
                                         if k != "fl1_max"})
        yield "hdf5", dclab.new_dataset(path)
        ds = dclab.new_dataset(path)
        ds.config["filtering"]["deform min"] = 0.0
        ds.config["filtering"]["deform max"] = 0.15
        ds.apply_filter()
        yield "child", dclab.new_dataset(ds)
        yield "basin", dclab.new_dataset(bpath)

    def accessors(kind, ds):
        feats = ["deform", "area_um", "bright_avg"]
        for f in feats:
            yield "ds[%s][:]" % f, (lambda f=f: ds[f][:])
            yield "ds[%s]" % f, (lambda f=f: ds[f])
        if kind != "dict":
            yield "ds[image][3]", lambda: ds["image"][3]
            yield "ds[image][2:5]", lambda: ds["image"][2:5]
        if kind in ("hdf5", "child"):
            yield "ds[mask][3]", lambda: ds["mask"][3]
            yield "ds[contour][3]", lambda: ds["contour"][3]
            yield "ds[volume][:]", lambda: ds["volume"][:]
        yield "kde_scatter", lambda: ds.get_kde_scatter(
            xax="area_um", yax="deform")
        yield "kde_scatter_gauss", lambda: ds.get_kde_scatter(
            xax="area_um", yax="deform", kde_type="gauss")
        yield "kde_contour", lambda: ds.get_kde_contour(
            xax="area_um", yax="deform")[2]
        yield "downsampled", lambda: ds.get_downsampled_scatter(
            xax="area_um", yax="deform", downsample=7)[0]
        yield "downsampled_all", lambda: ds.get_downsampled_scatter(
            xax="area_um", yax="deform", downsample=0)[1]

    for kind, ds in kinds():
        for name, get in accessors(kind, ds):
            try:
                first = get()
            except Exception as exc:
                ev.case({"kind": kind, "accessor": name,
                         "skipped": type(exc).__name__}, nontrivial=False)
                continue
            arr = first if isinstance(first, np.ndarray) else None
            if arr is None:
                try:
                    arr = first[:]
                except Exception:
                    arr = None
            pristine = np.array(arr, copy=True) if arr is not None else None
            modified = False
            if isinstance(arr, np.ndarray) and arr.size:
                try:
                    if arr.dtype == bool:
                        arr[...] = ~arr
                    else:
                        arr[...] = arr.max() + 13 if arr.dtype.kind != "u" \
                            else 255 - arr
                    modified = True
                except (ValueError, TypeError):
                    modified = False      # read-only: nothing can leak
            again = get()
            again = again if isinstance(again, np.ndarray) else again[:]
            ok = pristine is None or np.array_equal(
                np.asarray(again), pristine,
                equal_nan=(pristine.dtype.kind == "f"))
            ev.traces += 1
            ev.case({"kind": kind, "accessor": name,
                     "writeable": modified, "second_read_unchanged": bool(ok)},
                    nontrivial=modified)
            if not ok:
                rep.violation("in-place modification of %s on %s dataset "
                              "leaks into later reads" % (
                                  name.split("[")[0] + ("[feat]" if "[" in name
                                                        else ""), kind),
                              "%s %s" % (kind, name),
                              {"kind": kind, "accessor": name}, size=1)


def _contour_sched(job):
    """LazyContourList with a tiny capacity: every schedule of accesses
    (f = access style, p = event) returns the contour of that event"""
    m, sched, failpos = job
    from dclab.features.contour import LazyContourList, get_contour
    from .. import gen as g
    masks = np.array(g.mask(range(1, 7)))
    # event 5 has no contour (empty mask): asking for it fails; what the
    # list answers for the other events afterwards is still their contour
    masks[5] = False
    fresh = [get_contour(mk) for mk in masks[:5]]
    cl = LazyContourList(masks, max_events=m)
    obs, viol = [], None
    for i, (f, p) in enumerate(sched):
        if failpos is not None and i >= failpos and (i - failpos) % 2 == 0:
            try:
                cl[5]
            except BaseException:
                pass
        e = (p - 1) % 5
        try:
            if f == 1:
                got, want = [cl[e]], [fresh[e]]
            elif f == 2:
                got, want = [cl[e - 6]], [fresh[e]]      # negative index
            elif f == 3:
                if e == 4:
                    got, want = cl[e - 1:e + 1], fresh[e - 1:e + 1]
                else:
                    got, want = cl[e:e + 2], fresh[e:e + 2]      # slice
            else:
                got, want = [cl[np.int64(e)]], [fresh[e]]
        except Exception:
            # the event has a contour (fresh computation succeeded)
            got, want = [], [fresh[e]]
        ok = len(got) == len(want) and all(
            np.array_equal(a, b) for a, b in zip(got, want))
        obs.append(bool(ok))
        if not ok and viol is None:
            viol = ("lazy contour list returns the contour of another event",
                    "capacity %d step %d access style %d event %d after %s%s"
                    % (m, i, f, e, [list(x) for x in sched[:i]],
                       "" if failpos is None else " with failing accesses "
                       "to an event without contour from step %d" % failpos),
                    i)
    return {"contour_capacity": m, "schedule": [list(x) for x in sched],
            "failing_access_from_step": failpos,
            "fresh_equal": obs}, viol


READ_STYLES = {
    1: lambda fo: np.array(fo[:], copy=True),
    2: lambda fo: np.asarray(fo, dtype=np.float32),
    3: lambda fo: np.array(fo[2:7], copy=True),
    4: lambda fo: np.array([fo.min(), fo.max(), fo.mean()]),
}
READ_TARGETS = {1: ("hdf5", "deform"), 2: ("hdf5", "area_um"),
                3: ("child", "deform"), 4: ("child", "area_um"),
                5: ("basin", "area_um"), 6: ("basin", "bright_avg"),
                7: ("hdf5", "bright_avg"), 8: ("child", "bright_avg"),
                9: ("hdf5", "fl1_max"), 10: ("basin", "fl1_max")}


def _open_kinds(root):
    import dclab
    out = {"hdf5": dclab.new_dataset(root / "src.rtdc")}
    par_ = dclab.new_dataset(root / "src.rtdc")
    par_.config["filtering"]["deform min"] = 0.0
    par_.config["filtering"]["deform max"] = 0.15
    par_.apply_filter()
    out["child"] = dclab.new_dataset(par_)
    out["basin"] = dclab.new_dataset(root / "basin.rtdc")
    return out


_FRESH_READS = {}


def _read_sched(job):
    """reads of cached feature arrays in every order and access style equal
    the same read on a freshly opened dataset"""
    root, sched = job
    if not _FRESH_READS:
        for p, (kind, feat) in READ_TARGETS.items():
            for f, fn in READ_STYLES.items():
                dss = _open_kinds(root)
                try:
                    _FRESH_READS[(f, p)] = ("ok", fn(dss[kind][feat]))
                except Exception as exc:
                    _FRESH_READS[(f, p)] = ("raised", type(exc).__name__)
    dss = _open_kinds(root)
    obs, viol = [], None
    for i, (f, p) in enumerate(sched):
        kind, feat = READ_TARGETS[p]
        try:
            got = ("ok", READ_STYLES[f](dss[kind][feat]))
        except Exception as exc:
            got = ("raised", type(exc).__name__)
        want = _FRESH_READS[(f, p)]
        ok = got[0] == want[0] and (
            got[1] == want[1] if got[0] == "raised" else (
                got[1].dtype == want[1].dtype and np.array_equal(
                    got[1], want[1], equal_nan=True)))
        obs.append(bool(ok))
        if not ok and viol is None:
            viol = ("feature read differs from the same read on a fresh "
                    "dataset (%s)" % kind,
                    "step %d style %d on %s[%s] after %s: %s vs %s" % (
                        i, f, kind, feat, [list(x) for x in sched[:i]],
                        str(got)[:120], str(want)[:120]), i)
    return {"reads": [[f, READ_TARGETS[p][0], READ_TARGETS[p][1]]
                      for f, p in sched], "fresh_equal": obs}, viol


def _filehash(job):
    """replay one FileHashSpec history on real files"""
    import hashlib
    from dclab import util
    hist_, root = job
    d = root / ("fh%d" % (os.getpid()))
    d.mkdir(exist_ok=True)
    blobs = {1: b"a" * 70000, 2: b"b" * 70000, 3: b"a" * 69999 + b"c"}
    paths = {1: d / "one.bin", 2: d / "two.bin"}
    for p in paths.values():
        p.write_bytes(blobs[1])
    obs = []
    for st in hist_:
        if st["a"] == "write":
            paths[st["p"]].write_bytes(blobs[st["c"]])
            obs.append(None)
        else:
            got = util.hashfile(paths[st["p"]], blocksize=0 or 65536)
            want = hashlib.md5(blobs[st["ret"]]).hexdigest()
            obs.append(got == want)
    bad = [i for i, o in enumerate(obs) if o is False]
    return {"history": [[s["a"], s["p"], s.get("c", s.get("ret"))]
                        for s in hist_], "hash_is_current": obs}, bad


def main(tier, seed, replay=None):
    import_dclab()
    ev = evidence.Evidence(PID, tier, seed)
    rep = findings.Reporter(PID, ev)
    ev.rule = ("spec->code: every schedule of calls (function x adversarial "
               "pool member) up to the depth bound, enumerated by TLC from "
               "CacheSpec, executed on the real memoised kde_histogram/"
               "kde_gauss/kde_multivariate/downsample_grid with capacity "
               "M in {2,3}; each result compared with the undecorated "
               "function on copies (value, shape, dtype, or same exception). "
               "Plus sessions of several hundred calls at capacity 100, "
               "file-hash histories (FileHashSpec) on real files, and "
               "read-modify-read probes of everything the dataset interface "
               "returns for dict/hdf5/hierarchy/basin datasets. non-trivial "
               "= schedule with a repeated function or a mutation that was "
               "possible; distinct by hash.")
    ev.assumptions = ["md5 is injective on the key bytes",
                      "file modifications change size or mtime_ns (natural "
                      "writes; no adversarial timestamp forging)"]
    # 1. design level
    d = 5 if tier == "quick" else 7
    ok1 = tlc.run("MC_Cache", IMPL + BASE.format(m=2, kt="TRUE", al="FALSE",
                                                 d=d), timeout=1500)
    ev.add_tlc("MC_Cache CacheImpl(typed key, copies) => CacheSpec M=2", ok1)
    ok2 = tlc.run("MC_Cache", IMPL + BASE.format(m=3, kt="TRUE", al="FALSE",
                                                 d=d), timeout=1500)
    ev.add_tlc("MC_Cache CacheImpl(typed key, copies) => CacheSpec M=3", ok2)
    if not (ok1.ok and ok2.ok):
        raise tlc.TLCError("repaired CacheImpl violates "
                           + str(ok1.violated or ok2.violated))
    bad = tlc.run("MC_Cache", IMPL + BASE.format(m=2, kt="FALSE", al="FALSE",
                                                 d=4), timeout=600)
    ev.extra["deviation_model_counterexample"] = bad.violated
    if bad.ok:
        raise tlc.TLCError("untyped key no longer yields a collision")

    # 2. spec -> code: all schedules of depth 3; thorough adds every 24th
    # schedule of depth 4 (2.56 million; chosen by hash)
    def enum(depth):
        return tlc.run("MC_Cache", HIST + BASE.format(
            m=2, kt="TRUE", al="FALSE", d=depth).replace(
                "Funcs <- MCFuncs", "Funcs <- HFuncs").replace(
                "Pool <- MCPool", "Pool <- HPool"), workers=8, timeout=3000)
    res = enum(3)
    ev.add_tlc("MC_Cache schedule enumeration depth 3", res)
    scheds = sorted({tuple((s["f"], s["p"]) for s in h)
                     for h in res.iter_tagged("H", consume=True)})
    res_b = tlc.run("MC_Cache", HIST + BASE.format(
        m=2, kt="TRUE", al="FALSE", d=3).replace(
            "Funcs <- MCFuncs", "Funcs <- HFuncs").replace(
            "Pool <- MCPool", "Pool <- HPool2"), workers=8, timeout=3000)
    ev.add_tlc("MC_Cache schedule enumeration depth 3 (byte-order pair)",
               res_b)
    scheds_b = sorted({tuple((s["f"], s["p"]) for s in h)
                       for h in res_b.iter_tagged("H", consume=True)}
                      - set(scheds))
    res_c = tlc.run("MC_Cache", HIST + BASE.format(
        m=2, kt="TRUE", al="FALSE", d=3).replace(
            "Funcs <- MCFuncs", "Funcs <- HFuncs").replace(
            "Pool <- MCPool", "Pool <- HPool3"), workers=8, timeout=3000)
    ev.add_tlc("MC_Cache schedule enumeration depth 3 (keyword orders)",
               res_c)
    scheds_b += sorted({tuple((s["f"], s["p"]) for s in h)
                        for h in res_c.iter_tagged("H", consume=True)}
                       - set(scheds) - set(scheds_b))
    res_d = tlc.run("MC_Cache", HIST + BASE.format(
        m=2, kt="TRUE", al="FALSE", d=3).replace(
            "Funcs <- MCFuncs", "Funcs <- HFuncs").replace(
            "Pool <- MCPool", "Pool <- HPool4"), workers=8, timeout=3000)
    ev.add_tlc("MC_Cache schedule enumeration depth 3 (transposed pair)",
               res_d)
    scheds_b += sorted({tuple((s["f"], s["p"]) for s in h)
                        for h in res_d.iter_tagged("H", consume=True)}
                       - set(scheds) - set(scheds_b))
    if tier != "quick":
        res4 = enum(4)
        ev.add_tlc("MC_Cache schedule enumeration depth 4", res4)
        deep = set()
        for h in res4.iter_tagged("H", consume=True):
            sc = tuple((s["f"], s["p"]) for s in h)
            if zlib.crc32(repr(sc).encode()) % 24 == seed % 24:
                deep.add(sc)
        scheds += sorted(deep)
        ev.extra["depth4_schedules_kept"] = "1/24 (%d)" % len(deep)
    jobs = [(m, sched) for sched in scheds + scheds_b for m in (2, 3)]
    for case, viol in par.pmap(_replay, jobs, chunk=200):
        ev.traces += 1
        fs = [s[0] for s in case["schedule"]]
        ev.case(case, nontrivial=len(set(fs)) < len(fs))
        if viol:
            rep.violation(viol[0], viol[1], case, size=viol[2])

    # 2b. the same schedules drive the lazily cached contours (capacity 2, 3)
    cjobs = [(m, sc, fp) for sc in scheds for m in (2, 3)
             for fp in (None, 0, 1)]
    if tier == "quick":
        cjobs = par.sample(cjobs, 3, seed)
    for case, viol in par.pmap(_contour_sched, cjobs, chunk=300):
        ev.traces += 1
        ev.case(case, nontrivial=len({x[1] for x in case["schedule"]})
                < len(case["schedule"]))
        if viol:
            rep.violation(viol[0], viol[1], case, size=viol[2])

    # 3. code -> spec style long sessions at the real capacity
    rng = random.Random(seed * 31 + 17)
    long_sessions(ev, rep, rng, 3 if tier == "quick" else 30,
                  400 if tier == "quick" else 800)

    # 4. file-hash cache
    fd = 5 if tier == "quick" else 7
    fres = tlc.run("MC_FileHash", FH % fd, workers=8, timeout=900)
    ev.add_tlc("MC_FileHash histories depth %d" % fd, fres)
    scratch = tlc.scratch_dir("vp_c17_")
    try:
        hs = fres.tagged("H")
        if tier == "quick":
            hs = hs[::3]
        for case, badidx in par.pmap(_filehash, [(h, scratch) for h in hs],
                                     chunk=200):
            ev.traces += 1
            ev.case(case, nontrivial=any(x[0] == "write"
                                         for x in case["history"]))
            if badidx:
                rep.violation("hashfile returns the hash of an earlier "
                              "content", str(case)[:300], case,
                              size=badidx[0])
        # 5. dataset interface
        interface_mutation(ev, rep, scratch)
        # 6. cached feature arrays: all read schedules vs fresh datasets
        rjobs = [(scratch, sc) for sc in scheds]
        if tier == "quick":
            rjobs = [(scratch, sc) for sc in par.sample(scheds, 4, seed)]
        for case, viol in par.pmap(_read_sched, rjobs, chunk=100):
            ev.traces += 1
            ev.case(case, nontrivial=True)
            if viol:
                rep.violation(viol[0], viol[1], case, size=viol[2])
    finally:
        shutil.rmtree(scratch, ignore_errors=True)
    return rep.finish()
