"""C07 - Basin-provided features equal the origin's data for the mapped
events.

spec: basin/BasinSpec (chains of derived files; composed selections).
"""
import shutil

import numpy as np

from .. import evidence, findings, gen, par, tlc
from ..shims import import_dclab

PID = "C07"
CFG = ("INIT Init\nNEXT Next\nCONSTRAINT Emit\nINVARIANT ComposedOK\n"
       "CONSTANTS\n N = 5\n MaxFiles = {m}\n FirstSels <- MCFirst\n"
       " LaterSels <- MCLater\nCHECK_DEADLOCK FALSE\n")
ORIGIN_FEATS = ("deform", "area_um", "image", "mask", "contour", "trace",
                "fl1_max", "frame")
INTERNAL_FEATS = ("image", "mask", "fl1_max", "frame")
OWN_SHIFT = 0.5


def derive(src, rec, out, k, alter=False):
    """create file `out` from file `src` as the spec's Derive says"""
    import dclab
    import h5py
    from dclab.rtdc_dataset import RTDCWriter
    sel = [i - 1 for i in rec["sel"]]
    feats = ["deform"] + (["area_um"] if rec["own"] else [])
    if rec["how"] in ("export", "child", "grandchild"):
        with dclab.new_dataset(src) as ds:
            m = np.zeros(len(ds), dtype=bool)
            m[sel] = True
            ds.filter.manual[:] = m
            ds.apply_filter()
            if rec["how"] == "export":
                ds.export.hdf5(out, features=feats, filtered=True,
                               basins=True)
            elif rec["how"] == "child":
                ch = dclab.new_dataset(ds)
                ch.export.hdf5(out, features=feats, filtered=False,
                               basins=True)
            else:
                # two hierarchy levels: the first child drops everything
                # before the first selected event, the grandchild keeps
                # exactly the selection
                m1 = np.zeros(len(ds), dtype=bool)
                m1[min(sel):] = True
                ds.filter.manual[:] = m1
                ds.apply_filter()
                ch = dclab.new_dataset(ds)
                keep = [i - min(sel) for i in sel]
                m2 = np.zeros(len(ch), dtype=bool)
                m2[keep] = True
                ch.filter.manual[:] = m2
                ch.apply_filter()
                gch = dclab.new_dataset(ch)
                gch.export.hdf5(out, features=feats, filtered=False,
                                basins=True)
    elif rec["how"] == "internal":
        with dclab.new_dataset(src) as ds:
            meta = {s: dict(ds.config[s]) for s in
                    ("experiment", "imaging", "setup", "fluorescence")
                    if s in ds.config}
            data = {f: np.asarray(ds[f][:])[sel] for f in feats}
            rows = {f: np.asarray(ds[f][:]) for f in INTERNAL_FEATS}
        meta["experiment"].pop("event count", None)
        with RTDCWriter(out, mode="reset") as hw:
            hw.store_metadata(meta)
            for f in feats:
                hw.store_feature(f, data[f])
            # two internal basins share the group /basin_events: the
            # image-shaped rows in source order, the scalar rows reversed
            # (each basin with its own feature list and mapping)
            nsrc = len(rows["fl1_max"])
            hw.store_basin("rows %d" % k, "internal", "h5dataset",
                           ["basin_events"], basin_feats=["image", "mask"],
                           basin_map=np.array(sel, dtype=np.uint64),
                           internal_data={f: rows[f]
                                          for f in ("image", "mask")})
            hw.store_basin("rows %d reversed" % k, "internal", "h5dataset",
                           ["basin_events"],
                           basin_feats=["fl1_max", "frame"],
                           basin_map=np.array([nsrc - 1 - i for i in sel],
                                              dtype=np.uint64),
                           internal_data={f: rows[f][::-1]
                                          for f in ("fl1_max", "frame")})
    else:
        with dclab.new_dataset(src) as ds:
            rid = ds.get_measurement_identifier()
            meta = {s: dict(ds.config[s]) for s in
                    ("experiment", "imaging", "setup") if s in ds.config}
            data = {f: np.asarray(ds[f][:])[sel] for f in feats}
        meta["experiment"]["run identifier"] = "%s-m%d" % (rid, k)
        meta["experiment"].pop("event count", None)
        with RTDCWriter(out, mode="reset") as hw:
            hw.store_metadata(meta)
            for f in feats:
                hw.store_feature(f, data[f])
            hw.store_basin("mapped %d" % k, "file", "hdf5", [str(src)],
                           basin_map=np.array(sel, dtype=np.uint64))
    if rec["own"] and alter:
        with h5py.File(out, "a") as h5:
            h5["events/area_um"][:] = h5["events/area_um"][:] + OWN_SHIFT


def verify(path, rec, where, altered=False, fresh=None):
    """every feature of the file shows the events rec['ev']"""
    import dclab
    ev = list(rec["ev"])
    n = len(ev)
    out = []
    fresh = altered if fresh is None else fresh
    with dclab.new_dataset(path) as ds:
        if len(ds) != n:
            out.append(("file has a wrong number of events", "%d vs %d" % (
                len(ds), n)))
            return out
        for f in ORIGIN_FEATS:
            if rec["how"] == "internal" and f not in INTERNAL_FEATS \
                    and f not in ("deform", "area_um" if rec["own"] else ""):
                continue          # only the rows the file carries itself
            if f not in ds:
                out.append(("basin feature not offered (%s, %s)" % (
                    "scalar" if f in ("deform", "area_um", "fl1_max",
                                      "frame") else f, where), f))
                continue
            try:
                if f == "area_um" and rec["own"] and altered:
                    want = gen.scalar("area_um", ev) + OWN_SHIFT
                    ok = np.array_equal(np.asarray(ds[f][:]), want)
                    if not ok:
                        out.append(("stored feature does not take "
                                    "precedence over the basin feature",
                                    "%s" % np.asarray(ds[f][:])[:3]))
                    continue
                ids = gen.read_feature_ids(ds, f)
                if isinstance(ids, dict):
                    ok = all(v == ev for v in ids.values())
                else:
                    ok = ids == ev
                if not ok:
                    out.append(("basin feature does not show the mapped "
                                "origin events (%s, %s via %s)" % (
                                    "scalar" if f in ("deform", "area_um",
                                                      "fl1_max", "frame")
                                    else f, where, rec["how"]),
                                "%s: got %s want %s" % (f, ids, ev)))
                    continue
                # the feature's reported shape is that of the mapped data
                fobj = ds[f] if f != "trace" else ds[f][sorted(
                    ds[f].keys())[0]]
                shp = getattr(fobj, "shape", None)
                if shp is not None and (len(fobj) != n or shp[0] != n):
                    out.append(("basin feature reports a wrong length/shape "
                                "(%s, %s)" % ("scalar" if f in (
                                    "deform", "area_um", "fl1_max", "frame")
                                    else f, "mapped" if rec["how"] ==
                                    "mapped" else "export"),
                                "%s: len %s shape %s, %d events" % (
                                    f, len(fobj), shp, n)))
                if f == "contour":
                    single = [np.asarray(ds[f][i]) for i in range(n)]
                    cpats = {"slice": (lambda a: a[0:n:2],
                                       single[0:n:2]),
                             "bool mask": (lambda a: a[np.arange(n) % 2
                                                       == 0],
                                           single[0:n:2])}
                    for pn, (fn, want) in cpats.items():
                        try:
                            got = [np.asarray(c) for c in fn(ds[f])]
                            if len(got) != len(want) or not all(
                                    np.array_equal(g, w)
                                    for g, w in zip(got, want)):
                                out.append(("access pattern '%s' differs "
                                            "from event-wise reads (contour)"
                                            % pn, where))
                        except Exception as exc:
                            out.append(("access pattern '%s' raises %s "
                                        "(contour)" % (pn,
                                                       type(exc).__name__),
                                        repr(exc)[:100]))
                # access patterns
                if f in ("fl1_max", "image"):
                    whole = np.asarray(ds[f][:])
                    pats = {"int": lambda a: a[n // 2],
                            "negative int": lambda a: a[-1],
                            "slice": lambda a: a[0:n:2],
                            "bool mask": lambda a: a[np.arange(n) % 2 == 0],
                            "int array": lambda a: a[np.arange(n)[::-1]
                                                     .copy()]
                            if f == "fl1_max" else a[np.arange(0, n, 2)]}
                    for pn, fn in pats.items():
                        try:
                            # every pattern is also the FIRST access of the
                            # feature on a freshly opened dataset
                            got2 = fn(whole)
                            if fresh:
                                with dclab.new_dataset(path) as ds2:
                                    got2 = np.asarray(fn(ds2[f]))
                            if not np.array_equal(got2, fn(whole)):
                                out.append(("access pattern '%s' as first "
                                            "access differs from the whole "
                                            "array (%s)" % (
                                                pn, "scalar" if f ==
                                                "fl1_max" else f), where))
                            got = np.asarray(fn(ds[f]))
                            if not np.array_equal(got, fn(whole)):
                                out.append(("access pattern '%s' differs "
                                            "from the whole array (%s)" % (
                                                pn, "scalar" if f ==
                                                "fl1_max" else f), where))
                        except Exception as exc:
                            out.append(("access pattern '%s' raises %s (%s)"
                                        % (pn, type(exc).__name__,
                                           "scalar" if f == "fl1_max" else f),
                                        repr(exc)[:100]))
            except BaseException as exc:
                out.append(("reading basin feature raises %s (%s)" % (
                    type(exc).__name__, f), repr(exc)[:120]))
    return out


def _chain(job):
    import os
    case, root, origin = job
    d = root / ("c%d_%d" % (os.getpid(), _chain.k))
    _chain.k += 1
    d.mkdir()
    out = []
    try:
        paths = [d / "f1.rtdc"]
        shutil.copy(origin, paths[0])
        for k, rec in enumerate(case[1:], start=2):
            p = d / ("f%d.rtdc" % k)
            try:
                last = k == len(case)
                derive(paths[rec["src"] - 1], rec, p, k, alter=last)
            except BaseException as exc:
                out.append(("deriving a file raises %s (%s)" % (
                    type(exc).__name__, rec["how"]), repr(exc)[:150]))
                break
            paths.append(p)
            out += verify(p, rec, "depth %d" % (k - 1), altered=last)
        # referrer and origin moved together
        if not out and len(paths) > 1 and hash(str(case)) % 3 == 0:
            d2 = root / (d.name + "_moved")
            shutil.move(d, d2)
            out += [(s + " [after moving the directory]", t)
                    for s, t in verify(d2 / paths[-1].name, case[-1],
                                       "depth %d" % (len(paths) - 1),
                                       altered=True)]
            d = d2
    finally:
        shutil.rmtree(d, ignore_errors=True)
    return {"chain": [[r["how"], r.get("sel"), r["own"]] for r in case[1:]],
            "events": case[-1]["ev"]}, out


_chain.k = 0


IMPL_CFG = """INIT Init
NEXT Next
CONSTANTS
 N = %d
 MaxFiles = %d
 ComposeChild = %s
INVARIANT BasinMapsCorrect
CHECK_DEADLOCK FALSE
"""


def main(tier, seed, replay=None):
    import_dclab()
    ev = evidence.Evidence(PID, tier, seed)
    rep = findings.Reporter(PID, ev)
    ev.rule = ("chains of derived files enumerated by TLC from BasinSpec: "
               "from a 5-event origin, every non-empty filter mask and four "
               "explicit maps (permutation, repetition, superset, single) at "
               "the first level, seven selections further down, each as "
               "filtered export, export of a hierarchy child or explicitly "
               "mapped basin, with or without a feature stored in the file "
               "itself (altered values: precedence); every file of the chain "
               "is opened and every feature (scalar, image, mask, contour, "
               "trace) decoded to origin events, with int/negative/slice/"
               "boolean/array access; a third of the chains is moved to "
               "another directory and re-read. non-trivial = chain of depth "
               ">= 2.")
    ev.assumptions = ["remote basin formats are not exercised (no endpoint)"]
    q = tier == "quick"
    # design level: the basin list written by Export.hdf5 (transcribed)
    impl = tlc.run("BasinImpl", IMPL_CFG % (3 if q else 4, 4, "TRUE"),
                   timeout=3000)
    ev.add_tlc("BasinImpl (maps of child exports composed) files<=4", impl)
    if not impl.ok:
        raise tlc.TLCError("BasinImpl (as repaired) violates %s\n%s" % (
            impl.violated, impl.cex))
    old = tlc.run("BasinImpl", IMPL_CFG % (3, 3, "FALSE"), timeout=600)
    ev.extra["deviation_model_counterexample"] = old.violated
    if old.ok:
        raise tlc.TLCError("BasinImpl with the pinned child export no "
                           "longer yields a counterexample")
    res = tlc.run("MC_Basin", CFG.format(m=3 if q else 4), workers=8,
                  timeout=3000)
    if not res.ok:
        raise tlc.TLCError("BasinSpec: %s" % res.violated)
    ev.add_tlc("MC_Basin chains", res)
    seen, cases = set(), []
    for c in res.tagged("H"):
        k = str(c)
        if k not in seen:
            seen.add(k)
            cases.append(c)
    cases = par.sample(cases, 6 if q else max(1, len(cases) // 8000), seed)
    # all mapping arrays of length 1..4 (explicitly mapped basin)
    res2 = tlc.run("MC_Basin", CFG.format(m=2 if q else 3).replace(
        "NEXT Next", "NEXT MapNext"), workers=8, timeout=3000)
    if not res2.ok:
        raise tlc.TLCError("BasinSpec (maps): %s" % res2.violated)
    ev.add_tlc("MC_Basin all mapping arrays", res2)
    maps = []
    for c in res2.tagged("H"):
        k = str(c)
        if k not in seen:
            seen.add(k)
            maps.append(c)
    cases += par.sample(maps, 2 if q else max(1, len(maps) // 6000), seed)
    # maps with the end points and length of an increasing map, then one
    # more derivation
    res3 = tlc.run("MC_Basin", CFG.format(m=3).replace(
        "NEXT Next", "NEXT EndpointNext"), workers=8, timeout=3000)
    if not res3.ok:
        raise tlc.TLCError("BasinSpec (end points): %s" % res3.violated)
    ev.add_tlc("MC_Basin maps with common end points", res3)
    for c in res3.tagged("H"):
        k = str(c)
        if k not in seen and len(c) == 3:
            seen.add(k)
            cases.append(c)
    root = tlc.scratch_dir("vp_c07_")
    try:
        origin = root / "origin.rtdc"
        gen.write_rtdc(origin, list(range(1, 6)), feats=ORIGIN_FEATS,
                       run_id="verif-origin")
        for case, viols in par.pmap(_chain, [(c, root, origin)
                                             for c in cases], chunk=10):
            ev.traces += 1
            ev.case(case, nontrivial=len(case["chain"]) >= 2)
            for sig, detail in viols:
                rep.violation(sig, detail, case, size=len(case["chain"]))
    finally:
        shutil.rmtree(root, ignore_errors=True)
    return rep.finish()
