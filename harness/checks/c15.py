"""C15 - Polygon filters classify points by exact even-odd containment.

specs: numeric/PolygonSpec (even-odd definition by proper ray crossings in
exact integer arithmetic; half-open rule; invariances), PolyFileSpec.
"""
import shutil

import warnings

import numpy as np

from .. import evidence, findings, par, tlc
from ..shims import import_dclab

PID = "C15"
CFG = ("INIT Init\nNEXT Next\n{inv}CONSTANTS\n G = {g}\n MinV = {a}\n"
       " MaxV = {b}\nCHECK_DEADLOCK FALSE\n")
FCFG = ("INIT Init\nNEXT Next\nCONSTRAINT Emit\nCONSTANTS\n MaxFilters = {m}\n"
        " Shapes = {{1, 2, 3, 4}}\n NameClasses = {{\"plain\", \"spaces\", "
        "\"unicode\", \"equals\", \"brackets\"}}\n Ids = {{0, 3, 17}}\n"
        "CHECK_DEADLOCK FALSE\n")

TRANSFORMS = [
    ("identity", lambda v: v),
    ("scale 2^-20", lambda v: v * 2.0 ** -20),
    ("scale 2^20", lambda v: v * 2.0 ** 20),
    ("scale 2^-40", lambda v: v * 2.0 ** -40),
    ("scale 2^-30", lambda v: v * 2.0 ** -30),
    ("scale 10^6", lambda v: v * 1e6),
    ("scale 10^12", lambda v: v * 1e12),
    ("translate", lambda v: v + np.array([1000.0, -7.5])),
    ("swap axes", lambda v: v[:, ::-1]),
    ("scale 2^-20 translate", lambda v: v * 2.0 ** -20 + np.array([3.0, 3.0])),
]


def _classify(job):
    """compiled classification of all free points of one polygon under
    transformations, cyclic shifts, reversal, closing vertex, inversion"""
    from dclab.polygon_filter import PolygonFilter
    case, grid_pts, tier = job
    verts = np.array(case["poly"], dtype=float) / 2.0
    boundary = {tuple(p) for p in case["boundary"]}
    inside = {tuple(p) for p in case["inside"]}
    free = [p for p in grid_pts if p not in boundary]
    if not free:
        return {"poly": case["poly"], "free": 0}, []
    pts = np.array(free, dtype=float) / 2.0
    want = np.array([p in inside for p in free])
    out = []
    variants = [("as given", verts)]
    n = len(verts)
    variants.append(("shifted", np.roll(verts, -1, axis=0)))
    variants.append(("reversed", verts[::-1].copy()))
    variants.append(("closed", np.vstack([verts, verts[:1]])))
    tfs = TRANSFORMS if tier == "thorough" else TRANSFORMS[:1] + [
        TRANSFORMS[1 + (hash(str(case["poly"])) % 9)]]
    for vname, vv in variants:
        for tname, tf in tfs:
            tv, tp = tf(vv), tf(pts)
            PolygonFilter.clear_all_filters()
            pf = PolygonFilter(axes=("area_um", "deform"), points=tv)
            got = pf.filter(tp[:, 0], tp[:, 1])
            if not np.array_equal(got, want):
                bad = [free[i] for i in np.flatnonzero(got != want)][:3]
                out.append(("classification differs from even-odd rule "
                            "(%s, %s)" % (vname, "identity" if tname ==
                                          "identity" else "transformed"),
                            "poly %s %s %s points(doubled) %s" % (
                                case["poly"], vname, tname, bad)))
                continue
            # the data arrays may have any numeric type: points with
            # integral x given as integers, and x given as float32
            if tname == "identity" and vname == "as given":
                ix = np.flatnonzero(tp[:, 0] == np.round(tp[:, 0]))
                if len(ix):
                    goti = pf.filter(tp[ix, 0].astype(np.int64), tp[ix, 1])
                    if not np.array_equal(goti, want[ix]):
                        out.append(("classification depends on the data "
                                    "type of the x data (integers)",
                                    "poly %s" % (case["poly"],)))
                gotf = pf.filter(tp[:, 0].astype(np.float32), tp[:, 1])
                if not np.array_equal(gotf, want):
                    out.append(("classification depends on the data type "
                                "of the x data (float32)",
                                "poly %s" % (case["poly"],)))
            pf.inverted = True
            if not np.array_equal(pf.filter(tp[:, 0], tp[:, 1]), ~want):
                out.append(("inverted filter is not the complement",
                            "poly %s" % case["poly"]))
            # copies: plain copies classify alike, inverted copies are the
            # complement - of an inverted filter as well
            c_same = pf.copy()
            c_inv = pf.copy(invert=True)
            if not np.array_equal(c_same.filter(tp[:, 0], tp[:, 1]), ~want):
                out.append(("copy of an inverted filter classifies "
                            "differently", "poly %s" % case["poly"]))
            if not np.array_equal(c_inv.filter(tp[:, 0], tp[:, 1]), want):
                out.append(("inverted copy of an inverted filter is not "
                            "the complement", "poly %s" % case["poly"]))
            pf.inverted = False
            if not np.array_equal(pf.copy(invert=True).filter(
                    tp[:, 0], tp[:, 1]), ~want):
                out.append(("inverted copy is not the complement",
                            "poly %s" % case["poly"]))
            for o in (c_same, c_inv):
                PolygonFilter.remove(o.unique_id)
        # scalar entry point
        k = hash(str(case["poly"])) % len(free)
        if bool(PolygonFilter.point_in_poly(pts[k], vv)) != bool(want[k]):
            out.append(("point_in_poly differs from even-odd rule",
                        "poly %s point %s" % (case["poly"], free[k])))
    return {"poly": case["poly"], "free": len(free),
            "inside": int(want.sum())}, out


SHAPES = {1: [(0.5, 0.5), (3.5, 0.5), (2.0, 4.25)],
          2: [(0, 0), (4, 0), (4, 4), (2, 1), (0, 4)],
          3: [(1e-7, 2.5e6), (3.25e-7, 2.5e6), (3.25e-7, 9.125e6),
              (1e-7, 9.125e6)],
          # a star with twelve vertices (more vertices than digits)
          4: [(4.0, 2.0), (2.75, 2.5), (3.5, 3.5), (2.5, 2.75), (2.0, 4.0),
              (1.5, 2.75), (0.5, 3.5), (1.25, 2.5), (0.0, 2.0), (1.25, 1.5),
              (0.5, 0.5), (2.0, 1.25)]}
NAMES = {"plain": "gate1", "spaces": "my gate 2", "unicode": "Größe µm²",
         "equals": "CD34=high", "brackets": "[live] cells"}


def _roundtrip(job):
    from dclab.polygon_filter import PolygonFilter
    case, root = job
    import os
    path = root / ("f%d_%d.poly" % (os.getpid(), _roundtrip.k))
    _roundtrip.k += 1
    PolygonFilter.clear_all_filters()
    objs = []
    out = []
    try:
        for d in case["saved"]:
            pts = np.array(SHAPES[d["shape"]], dtype=float)
            ax = ("deform", "area_um") if d["swapaxes"] else ("area_um",
                                                              "deform")
            objs.append(PolygonFilter(axes=ax, points=pts,
                                      inverted=d["inverted"],
                                      name=NAMES[d["name"]],
                                      unique_id=d["id"]))
        PolygonFilter.save_all(path)
        before = [(list(o.axes), o.inverted, o.name, o.unique_id,
                   o.points.copy()) for o in objs]
        qx = np.array([1.0, 2.0, 3.0, 2.0e-7, 0.25, 5.0])
        qy = np.array([1.0, 2.0, 3.5, 5e6, 0.1, 5.0])
        cls_before = [o.filter(qx, qy) for o in objs]
        PolygonFilter.clear_all_filters()
        loaded = PolygonFilter.import_all(path)
        if len(loaded) != len(before):
            out.append(("number of filters changes in .poly round trip",
                        "%d vs %d" % (len(loaded), len(before))))
        for b, cb, o in zip(before, cls_before, loaded):
            if list(o.axes) != b[0]:
                out.append((".poly round trip alters axes", str(o.axes)))
            if o.inverted != b[1]:
                out.append((".poly round trip alters inversion", ""))
            if o.name != b[2]:
                out.append((".poly round trip alters name (%s)" % [
                    k for k, v in NAMES.items() if v == b[2]][0],
                    "%r vs %r" % (o.name, b[2])))
            if o.unique_id != b[3]:
                out.append((".poly round trip alters identifier",
                            "%s vs %s" % (o.unique_id, b[3])))
            if not np.array_equal(o.filter(qx, qy), cb):
                out.append((".poly round trip alters a classification", ""))
            elif not np.array_equal(np.asarray(o.points), b[4]):
                out.append((".poly round trip alters the vertices (%d "
                            "vertices)" % len(b[4]), ""))
        # the identifiers keep identifying the loaded filters: filters
        # registered afterwards (without requested identifier, and by
        # loading the file once more) take other identifiers
        want_ids = [b[3] for b in before]
        for k in range(2):
            PolygonFilter(axes=("area_um", "deform"),
                          points=np.array(SHAPES[case["saved"][0]["shape"]],
                                          dtype=float), name="later %d" % k)
        with warnings.catch_warnings():
            warnings.simplefilter("ignore")
            PolygonFilter.import_all(path)
        if [o.unique_id for o in loaded] != want_ids:
            out.append(("identifier of a loaded filter changes when further "
                        "filters are registered", ""))
        for p_ in PolygonFilter.instances:
            if PolygonFilter.get_instance_from_id(p_.unique_id) is not p_:
                out.append(("identifier of a loaded filter is given to a "
                            "filter registered later", "ids %s" % [
                                q_.unique_id
                                for q_ in PolygonFilter.instances]))
                break
    except Exception as exc:
        names = sorted({d["name"] for d in case["saved"]})
        out.append((".poly round trip raises %s (%s)" % (
            type(exc).__name__, "a name contains '='" if "equals" in names
            else "names: " + ",".join(names)), repr(exc)[:150]))
    finally:
        if path.exists():
            path.unlink()
    return {"filters": case["saved"]}, out


_roundtrip.k = 0


def main(tier, seed, replay=None):
    import_dclab()
    ev = evidence.Evidence(PID, tier, seed)
    rep = findings.Reporter(PID, ev)
    ev.rule = ("all polygons with MinV..MaxV vertices on the G x G integer "
               "grid (convex, concave, self-intersecting, repeated vertices) "
               "are enumerated by TLC, which proves the half-open crossing "
               "rule equal to the even-odd definition (proper ray crossings, "
               "integer cross products) for every half-lattice and lattice "
               "point off the boundary, plus shift/reverse/closing-vertex "
               "invariance, and emits the classification table; the compiled "
               "PolygonFilter.filter / point_in_poly is evaluated on every "
               "polygon and point, as given, shifted, reversed, closed, "
               "inverted and under exact similarity transforms (2^-40..2^20, "
               "10^6, 10^12, translation, axis swap). .poly round trips of "
               "all filter sets from PolyFileSpec. non-trivial = polygon "
               "with at least one inside and one outside free point.")
    ev.assumptions = ["compiled extension as installed (no Cython here)",
                      "float coordinates exactly representable; random "
                      "non-dyadic coordinates are not decided (DESIGN 7)"]
    q = tier == "quick"
    plans = [(3, 3, 4)] if q else [(3, 3, 5), (4, 3, 4)]
    for g, a, b in plans:
        ok = tlc.run("MC_Polygon", CFG.format(
            inv="INVARIANT ImplIsEvenOdd\nINVARIANT Invariances\n",
            g=g, a=a, b=b), timeout=6000)
        ev.add_tlc("MC_Polygon G=%d V=%d..%d ImplIsEvenOdd+Invariances" % (
            g, a, b), ok)
        if not ok.ok:
            raise tlc.TLCError("PolygonSpec: %s\n%s" % (ok.violated, ok.cex))
        res = tlc.run("MC_Polygon", CFG.format(inv="CONSTRAINT Emit\n", g=g,
                                               a=a, b=b), workers=8,
                      timeout=6000)
        ev.add_tlc("MC_Polygon G=%d V=%d..%d classification table" % (
            g, a, b), res)
        grid_pts = [(i, j) for i in range(-1, 2 * g)
                    for j in range(-1, 2 * g)]
        seen, cases = set(), []
        for c in res.tagged("H"):
            k = str(c["poly"])
            if k not in seen:
                seen.add(k)
                cases.append(c)
        if not q and len(cases) > 80000:
            cases = par.sample(cases, len(cases) // 80000 + 1, seed)
        for case, viols in par.pmap(_classify,
                                    [(c, grid_pts, tier) for c in cases],
                                    chunk=100):
            ev.traces += 1
            ev.case(case, nontrivial=0 < case.get("inside", 0)
                    < case.get("free", 0))
            for sig, detail in viols:
                rep.violation(sig, detail, case, size=len(case["poly"]))
    # persistence
    fres = tlc.run("PolyFileSpec", FCFG.format(m=2), workers=4,
                   timeout=3000)
    ev.add_tlc("PolyFileSpec filter sets", fres)
    seen, fcases = set(), []
    for c in fres.tagged("H"):
        k = str(c["saved"])
        if k not in seen:
            seen.add(k)
            fcases.append(c)
    if len(fcases) > 4000:
        fcases = par.sample(fcases, len(fcases) // 4000 + 1, seed)
    root = tlc.scratch_dir("vp_c15_")
    try:
        for case, viols in par.pmap(_roundtrip, [(c, root) for c in fcases],
                                    chunk=100):
            ev.traces += 1
            ev.case(case, nontrivial=len(case["filters"]) > 1)
            for sig, detail in viols:
                rep.violation(sig, detail, case, size=len(case["filters"]))
    finally:
        shutil.rmtree(root, ignore_errors=True)
    return rep.finish()
