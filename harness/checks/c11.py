"""C11 - Metadata values are type-normalised and survive storage unchanged.

specs: storage/MetaSpec (type/representation/route table), MC_MetaPipes.
"""
import contextlib
import io
import shutil
import warnings

import numpy as np

from .. import evidence, findings, gen, par, tlc
from ..shims import import_dclab

PID = "C11"
AUTO = {("experiment", "event count"), ("setup", "software version"),
        ("fluorescence", "samples per event"), ("imaging", "roi size x"),
        ("imaging", "roi size y")}

EXP = {
    "str": {"text": "some text", "Mixed Case Text": "Mixed Case Text",
            "unicode": "µm² Größe", "numeric text": "007",
            "yes-no text": "n"},
    "lcstr": {"lower": "channel"},
    "float": {"1.5": 1.5, "0": 0.0, "-2": -2.0, "1e-7": 1e-7,
              "3 (integral)": 3.0},
    "fint": {"3": 3, "0": 0, "1": 1},
    "fbool": {"true": True, "false": False, "true (fraction)": True},
    "fboolorfloat": {"true": True, "false": False, "2.5": 2.5,
                     "1 (one)": 1.0},
    "fintlist": {"[1,2,3]": [1, 2, 3], "[]": [], "[7]": [7], "[0,2]": [0, 2]},
    "f1dfloatduple": {"(1.5,2)": (1.5, 2.0)},
    "f2dfloatarray": {"[[1,2],[3,4.5]]": np.array([[1, 2], [3, 4.5]])},
}


def conc(t, p, r):
    v = EXP[t][p]
    if r == "fraction":
        return 0.5
    if r == "fraction string":
        return "0.25"
    if r == "negative fraction":
        return -0.5
    if r == "fraction bytes":
        return b"0.125"
    if r in ("native", "str", "list"):
        return v.tolist() if (r == "list" and isinstance(v, np.ndarray)) \
            else (list(v) if r == "list" else v)
    if r == "str upper":
        return v.upper()
    if r == "bytes":
        return (v if isinstance(v, str) else repr(v)).encode("utf-8")
    if r == "int":
        return int(v)
    if r == "float":
        return float(v)
    if r == "numpy scalar":
        return np.float64(v) if t == "float" else np.int64(v)
    if r == "numpy int":
        return np.int32(v)
    if r == "numpy bool":
        return np.bool_(v)
    if r == "numeric string":
        if t in ("fbool",):
            return "1" if v else "0"
        return repr(v)
    if r == "bool":
        return bool(v)
    if r == "bool string":
        return "True" if v else "False"
    if r == "lower bool string":
        return "true" if v else "false"
    if r == "tuple":
        return tuple(v)
    if r == "string":
        return str(list(v))
    if r == "numpy array":
        return np.array(v)
    raise ValueError((t, p, r))


def same(a, b):
    if isinstance(a, np.ndarray) or isinstance(b, np.ndarray):
        return np.array_equal(np.asarray(a), np.asarray(b))
    if isinstance(a, (tuple, list)) and isinstance(b, (tuple, list)):
        return len(a) == len(b) and all(same(x, y) for x, y in zip(a, b))
    if isinstance(a, (bool, np.bool_)) != isinstance(b, (bool, np.bool_)):
        return False
    return a == b


def keys_of(t):
    from dclab import definitions as dfn
    out = []
    for sec in ("experiment", "fluorescence", "imaging", "online_contour",
                "online_filter", "qpi", "setup", "filtering", "calculation"):
        try:
            table = dfn.config_funcs[sec]
        except Exception:
            continue
        for k, f in table.items():
            if getattr(f, "__name__", "") == t:
                out.append((sec, k))
    pattern = {"float": [("online_filter", "deform min"),
                         ("online_filter", "area_um max")],
               "fbool": [("online_filter", "deform soft limit"),
                         ("online_filter", "area_um,deform soft limit")],
               "f2dfloatarray": [("online_filter",
                                  "area_um,deform polygon points")]}
    return out + pattern.get(t, [])


def assign(route, sec, key, val, tmp):
    from dclab.rtdc_dataset.config import Configuration
    if route == "setitem":
        cfg = Configuration()
        cfg[sec][key] = val
    elif route == "setitem other case":
        cfg = Configuration()
        cfg[sec][key.upper()] = val
    elif route == "update":
        cfg = Configuration()
        cfg[sec].update({key: val})
    elif route == "constructor":
        cfg = Configuration(cfg={sec: {key: val}})
    elif route == "file other case":
        c0 = Configuration()
        c0[sec][key] = val
        c0.save(tmp)
        lines = []
        for ln in tmp.read_text(encoding="utf-8").split("\n"):
            if "=" in ln and not ln.strip().startswith("["):
                k, v = ln.split("=", 1)
                ln = k.title() + "=" + v
            lines.append(ln)
        tmp.write_text("\n".join(lines), encoding="utf-8")
        cfg = Configuration(files=[tmp])
    elif route == "file":
        c0 = Configuration()
        c0[sec][key] = val
        c0.save(tmp)
        cfg = Configuration(files=[tmp])
    else:
        raise ValueError(route)
    return cfg


def _assign_case(job):
    from dclab import definitions as dfn
    case, root = job
    import os
    tmp = root / ("cfg_%d.txt" % os.getpid())
    t, route = case["type"], case["route"]
    out = []
    n = 0
    for sec, key in keys_of(t):
        n += 1
        try:
            with warnings.catch_warnings(record=True) as wl:
                warnings.simplefilter("always")
                if case["stored"]:
                    val = conc(t, case["payload"], case["repr"])
                    cfg = assign(route, sec, key, val, tmp)
                elif case["repr"] == "unknown key":
                    cfg = assign(route, sec, "verif unknown key", 1, tmp)
                else:
                    val = {"empty string": "", "empty bytes": b""}.get(
                        case["repr"])
                    cfg = assign(route, sec, key, val, tmp)
        except Exception as exc:
            out.append(("assignment raises %s (%s %s via %s)" % (
                type(exc).__name__, t, case["repr"], route),
                "%s:%s %r" % (sec, key, exc)))
            continue
        if not case["stored"]:
            k2 = "verif unknown key" if case["repr"] == "unknown key" else key
            # (a default value may exist for the key; the rejected value
            # itself must not have been stored)
            if k2 in cfg[sec] and (case["repr"] == "unknown key"
                                   or cfg[sec][k2] in ("", b"", None)):
                out.append(("rejected input is stored (%s)" % case["repr"],
                            "%s:%s via %s" % (sec, k2, route)))
            elif not wl:
                out.append(("rejected input gives no warning (%s)"
                            % case["repr"], "%s:%s via %s" % (sec, k2, route)))
            continue
        want = EXP[t][case["payload"]]
        if key not in cfg[sec]:
            out.append(("valid value not stored (%s %s via %s)" % (
                t, case["repr"], route), "%s:%s" % (sec, key)))
            continue
        got = cfg[sec][key]
        typ = dfn.get_config_value_type(sec, key)
        if not same(got, want):
            out.append(("stored value differs (%s %s via %s)" % (
                t, case["repr"], route), "%s:%s got %r want %r" % (
                    sec, key, got, want)))
        elif typ is not None and not isinstance(got, typ):
            out.append(("stored value has undocumented type (%s via %s)" % (
                t, route), "%s:%s %r is %s, documented %s" % (
                    sec, key, got, type(got), typ)))
        else:
            cfg[sec][key] = cfg[sec][key]          # idempotence
            if not same(cfg[sec][key], want):
                out.append(("normalisation is not idempotent (%s)" % t,
                            "%s:%s" % (sec, key)))
    return dict(case, keys=n), out


def variant_meta(v):
    """every metadata key with payload variant v (+ user entries)"""
    from dclab import definitions as dfn
    meta = {}
    for t in EXP:
        plist = sorted(EXP[t])
        for sec, key in keys_of(t):
            if sec not in dfn.CFG_METADATA or (sec, key) in AUTO:
                continue
            p = plist[(v + len(key)) % len(plist)]
            meta.setdefault(sec, {})[key] = EXP[t][p]
    meta["user"] = {"note": "hello wörld", "number": 3 + v, "ratio": 2.5 * v,
                    "ratio a:b": 1.5 + v,
                    # (entries whose type differs between variants)
                    "count": 3 if v % 2 else 3.75,
                    "mixed": [3, 2.5, "text", True][v % 4],
                    "flag": bool(v % 2), "listy": [1, 2, 3 + v],
                    # (sequences with a single element stay sequences)
                    "single": [7 + v], "single weight": [0.75 * (v + 1)],
                    "single flag": [bool(v % 2)]}
    return meta


def _pipe_case(job):
    import dclab
    from dclab import cli
    from dclab.rtdc_dataset import RTDCWriter
    from dclab.rtdc_dataset.config import Configuration
    case, root = job
    import os
    d = root / ("p%d_%d" % (os.getpid(), _pipe_case.k))
    _pipe_case.k += 1
    d.mkdir()
    out = []
    cur_v = case["variant"]
    meta = variant_meta(cur_v)
    path = d / "f0.rtdc"
    try:
        with RTDCWriter(path, mode="reset") as hw:
            hw.store_metadata(meta)
            hw.store_feature("deform", gen.scalar("deform", range(1, 6)))
            # (a fluorescence feature: the channel count is completed by the
            # writer only when it is missing - a given value survives)
            hw.store_feature("fl1_max", gen.scalar("fl1_max", range(1, 6)))

        def compare(cfg, where, skip_user=False):
            for sec, kv in meta.items():
                if skip_user and sec == "user":
                    continue
                for key, want in kv.items():
                    if sec not in cfg or key not in cfg[sec]:
                        out.append(("metadata key lost after %s" % where,
                                    "%s:%s" % (sec, key)))
                        continue
                    got = cfg[sec][key]
                    if sec == "user":
                        ok = same(np.asarray(got).tolist()
                                  if isinstance(got, np.ndarray) else got,
                                  want)
                    else:
                        ok = same(got, want)
                        typ = dclab.definitions.get_config_value_type(sec,
                                                                      key)
                        if ok and typ is not None and not isinstance(got,
                                                                     typ):
                            out.append(("metadata type changes after %s"
                                        % where, "%s:%s %s" % (sec, key,
                                                               type(got))))
                    if not ok:
                        out.append(("metadata value changes after %s (%s)"
                                    % (where, "user entry" if sec == "user"
                                       else type(want).__name__),
                                    "%s:%s got %r want %r" % (sec, key, got,
                                                              want)))
        for i, step in enumerate(case["pipe"]):
            nxt = d / ("f%d.rtdc" % (i + 1))
            with contextlib.redirect_stdout(io.StringIO()):
                if step == "write_read":
                    with dclab.new_dataset(path) as ds:
                        compare(ds.config, step)
                    continue
                if step == "rewrite":
                    cur_v += 1
                    meta.clear()
                    meta.update(variant_meta(cur_v))
                    with RTDCWriter(path, mode="append") as hw:
                        hw.store_metadata(meta)
                    with dclab.new_dataset(path) as ds:
                        compare(ds.config, step)
                    continue
                if step == "text":
                    with dclab.new_dataset(path) as ds:
                        ds.config.save(d / "cfg.txt")
                    cfg = Configuration(files=[d / "cfg.txt"])
                    # (user-defined entries are only claimed for .rtdc
                    # storage, export and the command-line tools)
                    compare(cfg, step, skip_user=True)
                    continue
                if step == "export":
                    with dclab.new_dataset(path) as ds:
                        ds.export.hdf5(nxt, features=["deform"],
                                       filtered=False)
                elif step == "compress":
                    cli.compress(path_in=path, path_out=nxt, force=True)
                elif step == "repack":
                    cli.repack(path_in=path, path_out=nxt)
            path = nxt
            with dclab.new_dataset(path) as ds:
                compare(ds.config, step)
    except Exception as exc:
        out.append(("storage step raises %s" % type(exc).__name__,
                    "%s: %r" % (case["pipe"], exc)))
    finally:
        shutil.rmtree(d, ignore_errors=True)
    return {"pipe": case["pipe"], "variant": case["variant"],
            "keys": sum(len(v) for v in meta.values())}, out


_pipe_case.k = 0


def main(tier, seed, replay=None):
    dclab = import_dclab()
    from dclab import definitions as dfn
    ev = evidence.Evidence(PID, tier, seed)
    rep = findings.Reporter(PID, ev)
    ev.rule = ("MetaSpec enumerates (type class, payload, representation, "
               "route) with the value that must be stored, and the rejected "
               "inputs; each case is instantiated for EVERY concrete key of "
               "that type class taken from dclab.definitions at run time "
               "(incl. online_filter pattern keys) and compared by value, "
               "documented type and idempotence. MC_MetaPipes enumerates "
               "pipelines of storage steps (write/read, export, compress, "
               "repack, text round trip, second writer session overwriting "
               "every key with another payload variant) applied to a file holding every "
               "metadata key (+ user entries); after every step every value "
               "is compared. non-trivial = accepted value or pipeline of "
               "length >= 2.")
    ev.assumptions = ["keys re-derived by the writer (event count, "
                      "software version, roi size, samples per event) are "
                      "excluded from storage pipelines; the channel count "
                      "is only completed when missing and must survive"]
    # the spec's type classes must cover the code's converter table
    used = set()
    for sec in ("experiment", "fluorescence", "imaging", "online_contour",
                "online_filter", "qpi", "setup", "filtering", "calculation"):
        try:
            used |= {f.__name__ for f in dfn.config_funcs[sec].values()}
        except Exception:
            pass
    missing = used - set(EXP)
    if missing:
        raise tlc.TLCError("converter(s) without a type class in MetaSpec: "
                           "%s" % missing)
    ev.extra["keys_per_type"] = {t: len(keys_of(t)) for t in EXP}
    res = tlc.run("MetaSpec", "INIT Init\nNEXT Next\nCONSTRAINT Emit\n"
                  "INVARIANT TableTotal\nCHECK_DEADLOCK FALSE\n", workers=4,
                  timeout=900)
    ev.add_tlc("MetaSpec assignment cases", res)
    seen, cases = set(), []
    for c in res.tagged("H"):
        if str(c) not in seen:
            seen.add(str(c))
            cases.append(c)
    root = tlc.scratch_dir("vp_c11_")
    try:
        for case, viols in par.pmap(_assign_case, [(c, root) for c in cases],
                                    chunk=20):
            ev.traces += case["keys"]
            ev.case(case, nontrivial=case["stored"])
            for sig, detail in viols:
                rep.violation(sig, detail, case, size=1)
        q = tier == "quick"
        pres = tlc.run("MC_MetaPipes", "INIT Init\nNEXT Next\nCONSTRAINT Emit"
                       "\nCONSTANTS\n MaxLen = %d\n Variants = %s\n"
                       "CHECK_DEADLOCK FALSE\n" % (
                           2 if q else 3, "{1, 2}" if q else "{1, 2, 3}"),
                       workers=2, timeout=900)
        ev.add_tlc("MC_MetaPipes pipelines", pres)
        seen, pcs = set(), []
        for c in pres.tagged("H"):
            if str(c) not in seen:
                seen.add(str(c))
                pcs.append(c)
        for case, viols in par.pmap(_pipe_case, [(c, root) for c in pcs],
                                    chunk=4):
            ev.traces += 1
            ev.case(case, nontrivial=len(case["pipe"]) >= 2)
            for sig, detail in viols:
                rep.violation(sig, detail, case, size=len(case["pipe"]))
    finally:
        shutil.rmtree(root, ignore_errors=True)
    return rep.finish()
