"""C20 - Reported feature minima, maxima and means match the data.

spec: storage/SummariesSpec (definition + production actions, repair flag).
"""
import contextlib
import io
import math
import shutil

import numpy as np

from .. import evidence, findings, gen, par, tlc
from ..shims import import_dclab

PID = "C20"
NAN = 99
INF = 98

BASE = """
CONSTANTS
 Vals <- {vals}
 MaxLen = {ml}
 MaxBlock = {mb}
 CopyKinds <- {kinds}
 CountValid = {cv}
 WithInf = {inf}
 MaxDepth = {d}
CHECK_DEADLOCK FALSE
"""
DESIGN = "INIT DInit\nNEXT DNext\nINVARIANT StoredCorrect\n"
HIST = "INIT HInit\nNEXT HNext\nCONSTRAINT HCon\n"


def conc(vals, feat):
    if feat == "deform":
        return np.array([np.nan if v == NAN else np.inf if v == INF
                         else float(v) for v in vals])
    return np.array([v + 2 for v in vals], dtype=np.uint32)   # fl1_max


def close(g, r):
    g, r = float(g), float(r)
    if np.isnan(g) or np.isnan(r):
        return bool(np.isnan(g) and np.isnan(r))
    if np.isinf(g) or np.isinf(r):
        return g == r
    return abs(g - r) <= 1e-12 * max(1.0, abs(r))


def rat_ok(obs, rat, shift=0):
    if rat[1] == 0 and rat[0] == 1:
        return isinstance(obs, (float, np.floating)) and obs == np.inf
    if rat[1] == 0:
        return isinstance(obs, (float, np.floating)) and math.isnan(obs)
    want = rat[0] / rat[1] + shift
    try:
        return abs(float(obs) - want) <= 1e-12 * max(1.0, abs(want))
    except Exception:
        return False


def warnings_off():
    import warnings
    cm = warnings.catch_warnings()
    cm.__enter__()
    warnings.simplefilter("ignore")

    class _Ctx:
        def __enter__(self_):
            return self_

        def __exit__(self_, *a):
            cm.__exit__(*a)
            return False
    return _Ctx()


class FileUnderTest:
    def __init__(self, root, feat):
        self.root, self.feat = root, feat
        self.path = root / "f0.rtdc"
        self.k = 0
        self.hw = None
        self.meta_done = False

    def writer(self, mode="append"):
        from dclab.rtdc_dataset import RTDCWriter
        if self.hw is not None and self.hw.mode != mode:
            self.close()
        if self.hw is None:
            self.hw = RTDCWriter(self.path, mode=mode)
            self.hw.__enter__()
            if not self.meta_done:
                m = {k: dict(v) for k, v in gen.META.items()
                     if k != "fluorescence"}
                self.hw.store_metadata(m)
                self.meta_done = True
        return self.hw

    def close(self):
        if self.hw is not None:
            self.hw.__exit__(None, None, None)
            self.hw = None

    def step(self, st):
        from dclab import cli
        import h5py
        a = st["a"]
        if a == "append":
            self.writer("append").store_feature(self.feat,
                                                conc(st["blk"], self.feat))
        elif a == "reopen":
            self.close()
        elif a == "replace":
            self.close()
            self.writer("replace").store_feature(self.feat,
                                                 conc(st["blk"], self.feat))
            self.close()
        elif a == "strip":
            self.close()
            with h5py.File(self.path, "a") as h5:
                for k in ("min", "max", "mean"):
                    h5["events"][self.feat].attrs.pop(k, None)
        elif a == "copy":
            self.close()
            self.k += 1
            out = self.root / ("f%d.rtdc" % self.k)
            with contextlib.redirect_stdout(io.StringIO()):
                if st["kind"] == "compress":
                    cli.compress(path_in=self.path, path_out=out, force=True)
                elif st["kind"] == "repack":
                    cli.repack(path_in=self.path, path_out=out)
                elif st["kind"] == "condense":
                    cli.condense(path_in=self.path, path_out=out)
                else:
                    import dclab
                    with dclab.new_dataset(self.path) as ds:
                        ds.export.hdf5(out, features=[self.feat],
                                       filtered=False)
            self.path = out
        else:
            raise ValueError(a)

    def observe(self, final=True):
        """summaries through every reader + the data itself"""
        import dclab
        self.close()
        out = {}
        with dclab.new_dataset(self.path) as ds:
            fo = ds[self.feat]
            out["data"] = np.array(fo[:], copy=True)
            out["hdf5"] = (fo.min(), fo.max(), fo.mean())
            ch = dclab.new_dataset(ds)
            co = ch[self.feat]
            out["child"] = (co.min(), co.max(), co.mean())
            # hierarchy refresh: the parent drops its first event; the
            # summaries of the refreshed child follow its new data
            out["refresh"] = None
            # (only on files whose feature has as many events as the
            # dataset: a replaced feature of a condensed file has not)
            if len(ds) >= 2 and len(ds[self.feat]) == len(ds):
                ds.filter.manual[0] = False
                ch.rejuvenate()
                cr = ch[self.feat]
                vals = np.asarray(cr[:], dtype=float)
                with np.errstate(all="ignore"):
                    import warnings
                    with warnings.catch_warnings():
                        warnings.simplefilter("ignore")
                        ref = (np.nanmin(vals), np.nanmax(vals),
                               np.nanmean(vals)) if np.any(
                                   ~np.isnan(vals)) else (np.nan,) * 3
                        got = (cr.min(), cr.max(), cr.mean())
                out["refresh"] = (got, ref, np.array_equal(
                    vals, np.asarray(ds[self.feat][:], dtype=float)[1:],
                    equal_nan=True))
        # the same values held in memory (a dict-based dataset, as computed
        # and temporary features are): summaries of its hierarchy child,
        # whose parent filters nothing
        out["memchild"] = None
        if len(out["data"]):
            with warnings_off():
                md = dclab.new_dataset({self.feat: np.array(out["data"]),
                                        "area_um": np.arange(
                                            len(out["data"])) + 1.0})
                mc = dclab.new_dataset(md)
                mo = mc[self.feat]
                out["memchild"] = (mo.min(), mo.max(), mo.mean())
        # (basin-backed and joined views at the end of a history only)
        out["derived"] = self.derived_views() if final else []
        return out

    def derived_views(self):
        """summaries reported through a basin (same events) and by a file
        joined from this file and a copy of it: (name, reported, definition)"""
        import dclab
        import warnings
        from dclab import cli
        from dclab.rtdc_dataset import RTDCWriter
        res = []

        def stats(vals):
            vals = np.asarray(vals, dtype=float)
            if not np.any(~np.isnan(vals)):
                return (np.nan,) * 3
            return (np.nanmin(vals), np.nanmax(vals), np.nanmean(vals))
        self.k += 1
        ref = self.root / ("ref%d.rtdc" % self.k)
        m = {k: dict(v) for k, v in gen.META.items() if k != "fluorescence"}
        with dclab.new_dataset(self.path) as ds:
            n = len(ds)
            if len(ds[self.feat]) != n:
                return []     # (inconsistent file: see observe())
        import h5py
        with h5py.File(self.path, "r") as h5:
            if len({len(h5["events"][f]) for f in h5["events"]
                    if isinstance(h5["events"][f], h5py.Dataset)}) != 1:
                # (a feature replaced in a condensed file no longer fits the
                # condensed features: joining such a file is not defined)
                return []
        with RTDCWriter(ref, mode="reset") as hw:
            hw.store_metadata(m)
            hw.store_feature("area_um", np.arange(n, dtype=float) + 1)
            hw.store_basin("src", "file", "hdf5", [str(self.path)],
                           basin_feats=[self.feat], verify=False)
        with warnings.catch_warnings():
            warnings.simplefilter("ignore")
            with dclab.new_dataset(ref) as rd:
                if self.feat in rd:
                    fo = rd[self.feat]
                    if hasattr(fo, "min") and hasattr(fo, "mean"):
                        res.append(("basin-backed", (fo.min(), fo.max(),
                                                     fo.mean()),
                                    stats(fo[:])))
            cp = self.root / ("cp%d.rtdc" % self.k)
            jo = self.root / ("jo%d.rtdc" % self.k)
            import shutil as _sh
            _sh.copy(self.path, cp)
            with contextlib.redirect_stdout(io.StringIO()):
                cli.join(paths_in=[self.path, cp], path_out=jo)
            with dclab.new_dataset(jo) as jd:
                fo = jd[self.feat]
                res.append(("joined", (fo.min(), fo.max(), fo.mean()),
                            stats(fo[:])))
        for p_ in (ref, cp, jo):
            p_.unlink()
        return res


def _replay(job):
    hist_, root, feat = job
    import os
    d = root / ("h%d_%d" % (os.getpid(), _replay.n))
    _replay.n += 1
    d.mkdir()
    shift = 0 if feat == "deform" else 2
    import zlib
    # (basin-backed / joined views: a quarter of the histories)
    derived = zlib.crc32(repr(hist_).encode()) % 4 == 0
    fut = FileUnderTest(d, feat)
    viol = None
    steps = []
    try:
        for i, rec in enumerate(hist_):
            st = rec["step"]
            steps.append([st["a"], st.get("blk", st.get("kind"))])
            try:
                fut.step(st)
                # observe only where the writer is closed anyway, and at the
                # end of the history (all prefixes are histories of their own)
                if fut.hw is not None and i < len(hist_) - 1:
                    continue
                obs = fut.observe(final=(i == len(hist_) - 1 and derived))
            except Exception as exc:
                viol = ("%s raises %s" % (st["a"], type(exc).__name__),
                        "step %d %s: %r" % (i, st, exc), i)
                break
            want = conc(rec["data"], feat)
            if not np.array_equal(obs["data"], want, equal_nan=True):
                viol = ("stored values differ after " + st["a"],
                        "step %d: %s vs %s" % (i, obs["data"], want), i)
                break
            if obs.get("refresh") is not None:
                got, ref, same_data = obs["refresh"]
                okr = same_data and all(close(g, r)
                                        for g, r in zip(got, ref))
                if not okr:
                    viol = ("summaries of a refreshed hierarchy child differ "
                            "from its data", "steps %s: reported %s, data "
                            "give %s" % (steps, got, ref), i)
                    break
            for name, got, ref in obs.get("derived", []):
                if not all(close(g, r) for g, r in zip(got, ref)):
                    viol = ("summaries of a %s dataset differ from its data"
                            % name, "steps %s: reported %s, data give %s" % (
                                steps, got, ref), i)
                    break
            if viol:
                break
            for reader in ("hdf5", "child", "memchild"):
                if obs.get(reader) is None:
                    continue
                mn, mx, me = obs[reader]
                bad = [nm for nm, o, r in (("min", mn, rec["min"]),
                                           ("max", mx, rec["max"]),
                                           ("mean", me, rec["mean"]))
                       if not rat_ok(o, r, shift)]
                if bad:
                    prev = [s[0] for s in steps]
                    nan_before = any(NAN in (h["step"].get("blk") or [])
                                     for h in hist_[:i + 1])
                    sig = "%s wrong (%s reader) after %s%s" % (
                        "/".join(bad), reader, st["a"],
                        " with NaN values written" if nan_before else "")
                    viol = (sig, "steps %s: reported %s, data %s => %s" % (
                        steps, (mn, mx, me), rec["data"],
                        (rec["min"], rec["max"], rec["mean"])), i)
                    break
            if viol:
                break
    finally:
        fut.close()
        shutil.rmtree(d, ignore_errors=True)
    return {"feature": feat, "steps": steps,
            "final_data": hist_[len(steps) - 1]["data"] if steps else []}, viol


_replay.n = 0


def main(tier, seed, replay=None):
    import_dclab()
    ev = evidence.Evidence(PID, tier, seed)
    rep = findings.Reporter(PID, ev)
    ev.rule = ("production histories (append blocks over {ints, NaN} and "
               "{int, NaN, +inf} in any "
               "partition, writer re-opened, replace mode, summaries "
               "stripped, compress/repack/condense/export) enumerated by TLC "
               "from SummariesSpec up to the depth bound with exact rational "
               "min/max/mean per step; each history is executed on a real "
               ".rtdc file (float feature, and uint32 feature for NaN-free "
               "histories) and after every step min()/max()/mean() of the "
               "HDF5 feature object, of a hierarchy child (also after a refresh), "
               "of a basin-backed referrer and of a file joined from the "
               "file and a copy are compared "
               "with the rationals (1e-12) and the stored values with the "
               "expected data. non-trivial = at least two production steps; "
               "distinct by hash.")
    ev.assumptions = ["values exactly representable",
                      "feature objects of mapped basins report no summaries "
                      "(no min/max/mean methods): nothing to compare"]
    # 1. design level: the write paths keep the stored summaries correct
    ok = tlc.run("MC_Summaries", DESIGN + BASE.format(
        vals="MCVals", ml=5 if tier == "quick" else 6, mb=2, cv="TRUE", inf="FALSE",
        d=9, kinds="KindsAll"), timeout=2000, coverage=(tier == "thorough"))
    ev.add_tlc("MC_Summaries design (CountValid) StoredCorrect", ok)
    if not ok.ok:
        raise tlc.TLCError("repaired SummariesSpec violates StoredCorrect\n"
                           + ok.cex)
    ok2 = tlc.run("MC_Summaries", DESIGN + BASE.format(
        vals="MCValsSmall", ml=5, mb=2, cv="TRUE", inf="TRUE", d=9,
        kinds="KindsAll"), timeout=2000)
    ev.add_tlc("MC_Summaries design with +inf StoredCorrect", ok2)
    if not ok2.ok:
        raise tlc.TLCError("SummariesSpec with +inf violates StoredCorrect\n"
                           + ok2.cex)
    bad = tlc.run("MC_Summaries", DESIGN + BASE.format(
        vals="MCVals", ml=4, mb=2, cv="FALSE", inf="FALSE", d=9,
        kinds="KindsAll"), timeout=600)
    ev.extra["deviation_model_counterexample"] = bad.violated
    if bad.ok:
        raise tlc.TLCError("size-weighted running mean no longer yields a "
                           "counterexample")
    # 2. spec -> code
    d = 3 if tier == "quick" else 4
    hs = []
    # two value alphabets: {-2, 3, NaN} and {3, NaN, +inf}
    for vals, inf in (("MCValsSmall", "FALSE"), ("MCValsOne", "TRUE")):
        res = tlc.run("MC_Summaries", HIST + BASE.format(
            vals=vals, ml=6, mb=2, cv="TRUE", inf=inf, d=d,
            kinds="KindsQuick" if tier == "quick" else "KindsAll"), workers=8,
            timeout=3000)
        ev.add_tlc("MC_Summaries histories %s depth %d" % (vals, d), res)
        part = res.tagged("H")
        if tier == "quick" and len(part) > 20000:
            # histories in which the stored summaries go missing are all kept
            strip = [h for h in part
                     if any(r["step"]["a"] == "strip" for r in h)]
            part = strip + par.sample([h for h in part if not any(
                r["step"]["a"] == "strip" for r in h)], 2 if inf == "FALSE"
                else 4, seed)
            if inf == "TRUE":
                part = [h for h in part if any(
                    INF in (r["step"].get("blk") or []) for r in h)]
        elif len(part) > 120000:
            part = par.sample(part, 4 if inf == "FALSE" else 8, seed)
        hs += part
    root = tlc.scratch_dir("vp_c20_")
    try:
        jobs = []
        for h in hs:
            jobs.append((h, root, "deform"))
            # integer-typed feature for every NaN-free history
            if not any(NAN in (r["step"].get("blk") or [])
                       or INF in (r["step"].get("blk") or []) for r in h):
                jobs.append((h, root, "fl1_max"))
        for case, viol in par.pmap(_replay, jobs, chunk=50):
            ev.traces += 1
            ev.case(case, nontrivial=len(case["steps"]) >= 2)
            if viol:
                rep.violation(viol[0], viol[1], case, size=viol[2])
    finally:
        shutil.rmtree(root, ignore_errors=True)
    return rep.finish()
