"""X04 (beyond the listed properties) - configurations are independent maps.

spec: storage/ConfigSpec (two configurations; assignment, removal, in-place
change of list values, copy(), update()).  Spec -> code: every history up to
the depth bound is executed on two dclab Configuration objects; after every
step every key of both is compared with the spec.

Not part of MANIFEST.json; run with ./check X04.
"""
import warnings

from .. import evidence, findings, par, tlc
from ..shims import import_dclab

PID = "X04"
CFG = ("INIT CInit\nNEXT CNext\nCONSTRAINT HCon\nPROPERTY Independent\n"
       "CONSTANTS\n MaxDepth = %d\nCHECK_DEADLOCK FALSE\n")
SCALARS = {"setup:channel width": {1: 20.0, 2: 30.0},
           "user:note": {1: "a", 2: "b"}}
KEYS = ["setup:channel width", "user:note", "filtering:polygon filters",
        "user:list"]


def observe(cfg):
    out = {}
    for k in KEYS:
        sec, key = k.split(":")
        if sec not in cfg or key not in cfg[sec]:
            out[k] = [-1]
            continue
        v = cfg[sec][key]
        if k in SCALARS:
            inv = {vv: kk for kk, vv in SCALARS[k].items()}
            out[k] = [-2, inv.get(v, "?%r" % (v,))]
        else:
            out[k] = [0] + [int(x) for x in v]
    return out


def _replay(hist_):
    from dclab.rtdc_dataset.config import Configuration
    with warnings.catch_warnings():
        warnings.simplefilter("ignore")
        cfgs = {"A": Configuration(), "B": Configuration()}
        steps, viol = [], None
        for i, rec in enumerate(hist_):
            st = rec["step"]
            a, c = st["a"], st["c"]
            other = "B" if c == "A" else "A"
            steps.append([a, c] + [st[x] for x in ("k", "v") if x in st])
            try:
                if a in ("set", "setlist", "append", "pop"):
                    sec, key = st["k"].split(":")
                if a == "set":
                    cfgs[c][sec][key] = SCALARS[st["k"]][st["v"]]
                elif a == "setlist":
                    cfgs[c][sec][key] = [st["item"]]
                elif a == "append":
                    cfgs[c][sec][key].append(st["item"])
                elif a == "pop":
                    cfgs[c][sec].pop(key)
                elif a == "copy":
                    cfgs[c] = cfgs[other].copy()
                elif a == "update":
                    cfgs[c].update(cfgs[other])
                got = {x: observe(cfgs[x]) for x in ("A", "B")}
            except Exception as exc:
                viol = ("%s raises %s" % (a, type(exc).__name__),
                        "steps %s: %r" % (steps, exc), i)
                break
            want = rec["obs"]
            bad = [(x, k) for x in ("A", "B") for k in KEYS
                   if got[x][k] != want[x][k]]
            if bad:
                x, k = bad[0]
                viol = ("%s: %s configuration differs after %s" % (
                    k.split(":")[0] + " " + ("list" if k not in SCALARS
                                             else "value"),
                    "the other" if x != c else "the changed", a),
                    "steps %s: %s[%s] is %s, specified %s" % (
                        steps, x, k, got[x][k], want[x][k]), i)
                break
    return {"steps": steps}, viol


def main(tier, seed, replay=None):
    import_dclab()
    ev = evidence.Evidence(PID, tier, seed, subdir="extra")
    rep = findings.Reporter(PID, ev)
    ev.rule = ("ConfigSpec: every history of assignments, removals, in-place "
               "list changes, copy() and update() on two Configuration "
               "objects up to the depth bound; every key of both objects is "
               "compared after every step. non-trivial = history contains a "
               "copy or an update.")
    q = tier == "quick"
    for d, keep in ((3, 1), (4, 25 if q else 3)):
        res = tlc.run("ConfigSpec", CFG % d, workers=8, timeout=3000)
        ev.add_tlc("ConfigSpec depth %d" % d, res)
        if not res.ok:
            raise tlc.TLCError("ConfigSpec violates %s" % res.violated)
        hs = list(res.iter_tagged("H", consume=True))
        if keep > 1:
            hs = par.sample(hs, keep, seed)
        for case, viol in par.pmap(_replay, hs, chunk=200):
            ev.traces += 1
            ev.case(case, nontrivial=any(s[0] in ("copy", "update")
                                         for s in case["steps"]))
            if viol:
                rep.violation(viol[0], viol[1], case, size=viol[2])
    return rep.finish()
