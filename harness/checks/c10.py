"""C10 - Command-line tasks never leave a partial file at the output path.

specs: cli/TaskAtomicSpec (protocol + failure/kill at every point, model
checked), TaskAtomicTrace (recorded operation traces of the real tasks).
Level: fault enumeration - every file operation of the fault-free run is made
to fail (I/O error) and, separately, the process is killed right before it.
"""
import contextlib
import hashlib
import io
import json
import os
import shutil
import zipfile

import numpy as np

from .. import evidence, faultio, findings, gen, par, tlc, tracecheck
from ..shims import import_dclab

PID = "C10"
MC = ("INIT Init\nNEXT Next\nINVARIANT OutputAtomic\nINVARIANT "
      "DoneMeansComplete\nPROPERTY OnlyRenameCreatesOutput\nCONSTANTS\n"
      " Programs <- {p}\n StaleOut = {s}\nCHECK_DEADLOCK FALSE\n")
TRACE = "INIT TInit\nNEXT TStep\nCONSTRAINT Report\nCHECK_DEADLOCK FALSE\n"
TASKS = ("compress", "repack", "condense", "join", "split", "tdms2rtdc")


def sha(p):
    return hashlib.sha256(p.read_bytes()).hexdigest()


def prepare(task, d, variant):
    """inputs + the paths with their roles; returns (callable, ins, outs).
    variant 2: as variant 0, the output path is requested without its .rtdc
    suffix (the task appends it; the output path is the corrected one)"""
    nosuffix = variant == 2
    # variant 3: as variant 0, the output is requested next to the input
    # under the input's own stem with another suffix ("in.tmp"): the task
    # appends .rtdc, the output path is in.tmp.rtdc - not the input
    sibling = variant == 3
    if nosuffix or sibling:
        variant = 0

    def req(p):
        return p.with_suffix("") if nosuffix else p
    feats = ("deform", "area_um", "image", "time", "frame") if variant == 0 \
        else ("deform", "area_um", "mask", "contour", "time", "frame")
    n = 12 if variant == 0 else 7
    ins, outs = [], []
    if task == "tdms2rtdc":
        name = "fmt-tdms_shapein-2.0.1-no-image_2017.zip" if variant == 0 \
            else "fmt-tdms_2fl-no-image_2017.zip"
        with zipfile.ZipFile("/repo/tests/data/" + name) as zf:
            zf.extractall(d / "tdms")
        t = [t for t in sorted((d / "tdms").rglob("*.tdms"))
             if not t.name.endswith("_traces.tdms")][0]
        ins = [t] + [p for p in t.parent.iterdir() if p != t
                     and p.is_file()]
        outs = [d / "conv.rtdc"]

        def run():
            from dclab import cli
            cli.tdms2rtdc(path_tdms=t, path_rtdc=req(outs[0]))
    elif task == "join":
        for i in (1, 2):
            p = d / ("in%d.rtdc" % i)
            gen.write_rtdc(p, [100 * i + j for j in range(1, n + 1)],
                           feats=feats, meta={"experiment": {
                               "time": "12:00:0%d" % i}},
                           logs={"l%d" % i: ["x"]})
            ins.append(p)
        outs = [d / "joined.rtdc"]

        def run():
            from dclab import cli
            cli.join(paths_in=list(ins), path_out=req(outs[0]))
    else:
        p = d / "in.rtdc"
        gen.write_rtdc(p, list(range(1, n + 1)), feats=feats,
                       logs={"srclog": ["a", "b"]})
        ins = [p]
        if task == "split":
            size = 5 if variant == 0 else 3
            k = (n + size - 1) // size
            outs = [d / ("in_%04d.rtdc" % (i + 1)) for i in range(k)]

            def run():
                from dclab import cli
                cli.split(path_in=p, path_out=d, split_events=size,
                          verbose=False)
        else:
            outs = [d / ("in.tmp.rtdc" if sibling else "out.rtdc")]
            if sibling:
                def req(p_):    # noqa: F811
                    return d / "in.tmp"

            def run():
                from dclab import cli
                if task == "compress":
                    cli.compress(path_in=p, path_out=req(outs[0]), force=True)
                elif task == "repack":
                    cli.repack(path_in=p, path_out=req(outs[0]))
                else:
                    cli.condense(path_in=p, path_out=req(outs[0]))
    return run, ins, outs


def roles_of(ins, outs):
    roles = {}
    for p in ins:
        roles[str(p.resolve())] = ("IN", 0)
    for j, p in enumerate(outs, start=1):
        roles[str(p.resolve())] = ("OUT", j)
        roles[str(p.with_suffix(".rtdc~").resolve())] = ("TEMP", j)
    if outs:
        roles["__dir__"] = str(outs[0].parent.resolve())
        roles["__stems__"] = sorted(
            ((j, p.stem) for j, p in enumerate(outs, start=1)),
            key=lambda x: -len(x[1]))
    return roles


def child(run, roles, fail_at, mode, report):
    """run the task in a forked child under the interposer"""
    pid = os.fork()
    if pid == 0:
        rc = 3
        try:
            ip = faultio.Interposer(roles, fail_at, mode)
            ip.install()
            try:
                with contextlib.redirect_stdout(io.StringIO()), \
                        contextlib.redirect_stderr(io.StringIO()):
                    run()
                rc = 0
            except BaseException:
                rc = 1
            if report is not None:
                report.write_text(json.dumps({"count": ip.count,
                                              "ops": ip.ops}))
        finally:
            os._exit(rc)
    _, status = os.waitpid(pid, 0)
    return os.waitstatus_to_exitcode(status)


def strays(d, ins, outs):
    """files that look like results (.rtdc) but are neither inputs nor the
    requested outputs: incomplete data may only exist under the temporary
    name"""
    known = {p.resolve() for p in list(ins) + list(outs)}
    return sorted(p.name for p in d.glob("*.rtdc")
                  if p.resolve() not in known)


def content(path):
    """decoded events of an output file: every stored scalar feature, the
    length the dataset reports and its metadata (None if the file cannot be
    loaded)"""
    import dclab
    try:
        with dclab.new_dataset(path) as ds:
            inn = sorted(ds.features_innate)
            vals = {}
            for f in inn:
                if dclab.definitions.scalar_feature_exists(f):
                    vals[f] = [None if x != x else round(float(x), 9)
                               for x in np.asarray(ds[f][:], dtype=float)]
            # what the writer's finalisation step is responsible for: the
            # event count the file declares and the rectified / branded
            # metadata (a file whose finalisation failed is not complete)
            meta = {"len": len(ds)}
            for sec in ("experiment", "imaging", "fluorescence", "setup"):
                for k, v in sorted(dict(ds.config.get(sec, {})).items()):
                    if (sec, k) == ("experiment", "run identifier"):
                        # a filtered export derives a fresh identifier from
                        # the filter object: differs between two runs
                        continue
                    meta["%s:%s" % (sec, k)] = repr(v)
            return vals, inn, meta
    except BaseException:
        return None


def _task_case(job):
    task, variant, root, every = job
    d = root / ("%s_%d_%d" % (task, variant, os.getpid()))
    shutil.rmtree(d, ignore_errors=True)
    d.mkdir()
    out = []
    info = {"task": task, "variant": variant}
    try:
        run, ins, outs = prepare(task, d, variant)
        roles = roles_of(ins, outs)
        in_sha = {p: sha(p) for p in ins}
        rep = d / "report.json"
        rc = child(run, roles, None, None, rep)
        if any(not p.exists() for p in ins):
            return info, [("input file removed by " + task,
                           "variant %s" % info["variant"])], None
        if rc != 0 or not rep.exists():
            return info, [("fault-free run of %s fails" % task, "rc=%s" % rc)
                          ], None
        r = json.loads(rep.read_text())
        total = r["count"]
        golden = [content(p) for p in outs]
        if any(g is None for g in golden):
            out.append(("fault-free output of %s cannot be loaded" % task,
                        ""))
        trace = {"task": task, "ops": [{"op": o, "j": j}
                                       for o, role, j in r["ops"]]}
        info["operations"] = total
        for p in ins:
            if sha(p) != in_sha[p]:
                out.append(("input modified by a successful " + task, p.name))
        if strays(d, ins, outs):
            out.append(("%s leaves data under a name that is neither the "
                        "output nor the temporary name" % task,
                        str(strays(d, ins, outs))))
        ks = list(range(1, total + 1))
        if not every and total > 200:
            ks = sorted(set(ks[:60] + ks[-60:] + ks[60:-60:max(
                1, (total - 120) // 40)]))
        injected = 0
        for mode in ("raise", "kill"):
            for k in ks:
                for p in outs:
                    for q in (p, p.with_suffix(".rtdc~")):
                        if q.exists():
                            q.unlink()
                rc = child(run, roles, k, mode, None)
                injected += 1
                for j, p in enumerate(outs):
                    if p.exists():
                        c = content(p)
                        if c is None or c != golden[j]:
                            out.append((
                                "%s leaves a partial/invalid file at the "
                                "output path (%s at an operation)" % (
                                    task, "I/O error" if mode == "raise"
                                    else "kill"),
                                "operation %d of %d, output %s" % (
                                    k, total, p.name)))
                st = strays(d, ins, outs)
                if st:
                    out.append(("%s leaves data under a name that is "
                                "neither the output nor the temporary name"
                                % task, "operation %d (%s): %s" % (k, mode,
                                                                   st)))
                    for nm in st:
                        (d / nm).unlink()
                for p in ins:
                    if sha(p) != in_sha[p]:
                        out.append(("input modified by a failing " + task,
                                    "operation %d (%s)" % (k, mode)))
                        in_sha[p] = sha(p)
        info["injected_runs"] = injected
    except BaseException as exc:
        out.append(("fault enumeration of %s raises %s" % (
            task, type(exc).__name__), repr(exc)[:200]))
        trace = None
    finally:
        shutil.rmtree(d, ignore_errors=True)
    return info, out, trace


def main(tier, seed, replay=None):
    import_dclab()
    ev = evidence.Evidence(PID, tier, seed, level="fault_enumeration")
    rep = findings.Reporter(PID, ev)
    ev.rule = ("for each task (compress, repack, condense, join, split, "
               "tdms2rtdc) and each generated input variant, the fault-free "
               "run is recorded by an I/O interposer (h5py file open/close, "
               "dataset/group/attribute writes, resize, object copy, "
               "pathlib rename/unlink); then, in a forked child per point, "
               "operation k raises an I/O error, and separately the process "
               "is killed right before operation k, for every k (quick: "
               "first/last 25 + 10 in between when a run has more than 60 "
               "operations); afterwards every output path must be absent or "
               "load with content equal to the fault-free result and the "
               "inputs' sha256 must be unchanged. The recorded operation "
               "traces are validated by TLC against TaskAtomicTrace and the "
               "protocol TaskAtomicSpec is model checked with failures and "
               "kills at every point. non-trivial = every injected run.")
    ev.assumptions = ["crash = process death / raised OSError at operation "
                      "granularity; power-loss durability of rename without "
                      "fsync is not observable here and not claimed"]
    q = tier == "quick"
    for p, s, expect in (("Good", "TRUE", True), ("Good", "FALSE", True),
                         ("Bad", "FALSE", False)):
        r = tlc.run("MC_TaskAtomic", MC.format(p=p, s=s), workers=2,
                    timeout=600)
        ev.add_tlc("MC_TaskAtomic programs=%s stale=%s" % (p, s), r)
        if r.ok != expect:
            raise tlc.TLCError("TaskAtomicSpec %s programs: ok=%s" % (p,
                                                                      r.ok))
    root = tlc.scratch_dir("vp_c10_")
    try:
        jobs = [(t, v, root, not q) for t in TASKS
                for v in ((0, 2, 3) if q else (0, 1, 2, 3))
                if not (t == "split" and v == 2)
                and not (v == 3 and t not in ("compress", "repack",
                                              "condense"))]
        traces = []
        n_inj = 0
        for info, viols, trace in par.pmap(_task_case, jobs, chunk=1):
            n = info.get("injected_runs", 0)
            n_inj += n
            for i in range(max(n, 1)):
                ev.case(dict(info, run=i), nontrivial=True)
            if trace and not trace["ops"]:
                rep.violation("%s: the run touches neither the output nor "
                              "the temporary path" % trace["task"],
                              str(info), info, size=1)
            if trace:
                traces.append(trace)
            for sig, detail in viols:
                rep.violation(sig, detail, info, size=1)
        ev.extra["injected_runs"] = n_inj
        if traces:
            res, ok, rej = tracecheck.validate("TaskAtomicTrace", TRACE,
                                               traces, workers=2)
            ev.add_tlc("TaskAtomicTrace (%d recorded task runs)"
                       % len(traces), res)
            ev.traces += len(ok)
            for tid, (line, why) in sorted(rej.items()):
                t = traces[tid - 1]
                rep.violation("%s: recorded operations violate the "
                              "protocol (%s)" % (t["task"], why),
                              "operation %d: %s" % (line, t["ops"][
                                  max(0, line - 3):line]), t, size=line)
            # binding self-test: a write to the output path must be rejected
            bad = [dict(t, ops=t["ops"][:-1] + [{"op": "write_out",
                                                 "j": t["ops"][-1]["j"]}])
                   for t in [t for t in traces if t["ops"]][:2]]
            _, ok2, rej2 = tracecheck.validate("TaskAtomicTrace", TRACE, bad,
                                               workers=1)
            ev.extra["binding_selftest_rejected"] = len(rej2)
            if len(rej2) != len(bad):
                raise tlc.TLCError("binding self-test failed")
    finally:
        shutil.rmtree(root, ignore_errors=True)
    return rep.finish()
