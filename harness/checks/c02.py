"""C02 - HDF5/TSV export contains exactly the selected events and features.

spec: storage/ExportSpec (selection semantics + transcription of the
stack generator's two routes).
"""
import shutil
import zipfile

import numpy as np

from .. import evidence, findings, gen, par, tlc
from ..shims import import_dclab

PID = "C02"
SRCLOG = ["first", "second line",
          "°C " + "µ" * 68 + " (more bytes than characters)"]
KINDS = ("hdf5", "dict", "lazy", "child", "basin")


class LazyStack:
    """event-wise container without __array__ (like the tdms image/mask
    columns): forces the exporter's slow route"""

    def __init__(self, arr):
        self._a = arr
        self.shape = arr.shape
        self.dtype = arr.dtype
        self.ndim = arr.ndim

    def __len__(self):
        return len(self._a)

    def __getitem__(self, i):
        if isinstance(i, slice):
            return self._a[i]
        if not isinstance(i, (int, np.integer)):
            raise TypeError("event-wise or slice access only")
        return self._a[int(i)]
FEATS_FILE = ("deform", "area_um", "image", "image_bg", "mask", "contour", "trace",
              "fl1_max", "frame")


def build_source(kind, n, root):
    """-> (dataset, tokens of its events, features to export)"""
    import dclab
    if kind == "hdf5":
        p = root / ("src_%d.rtdc" % n)
        if not p.exists():
            gen.write_rtdc(p, list(range(1, n + 1)), feats=FEATS_FILE,
                           # (a file that was exported before holds logs
                           # and tables whose names carry the prefix)
                           logs={"srclog": SRCLOG,
                                 "src_srclog": ["an older generation"]},
                           tables={"srctab": {"a": np.arange(4.0),
                                              "b": np.arange(4.0) + 7},
                                   "src_srctab": {"a": np.arange(3.0),
                                                  "b": np.arange(3.0) - 5}})
        return dclab.new_dataset(p), list(range(1, n + 1)), list(FEATS_FILE)
    if kind == "lazy":
        ids = list(range(1, n + 1))
        d = {"deform": gen.scalar("deform", ids),
             "image": LazyStack(gen.image(ids)),
             "mask": LazyStack(gen.mask(ids))}
        ds = dclab.new_dataset(d)
        ds.config["experiment"]["run identifier"] = "lazy-run"
        return ds, ids, ["deform", "image", "mask"]
    if kind == "dict":
        ids = list(range(1, n + 1))
        d = {f: gen.encode(f, ids) for f in ("deform", "area_um", "fl1_max")}
        d["image"] = gen.image(ids)
        d["mask"] = gen.mask(ids)
        ds = dclab.new_dataset(d)
        ds.config["imaging"]["pixel size"] = 0.34
        ds.config["experiment"]["sample"] = "dict sample"
        ds.config["experiment"]["run identifier"] = "dict-run"
        ds.config["setup"]["channel width"] = 20.0
        ds.config["user"]["note"] = "hello"
        nd = np.arange(n * 6, dtype=float).reshape(n, 3, 2) + 0.5
        dclab.set_temporary_feature(ds, "verif_nd", nd)
        return ds, ids, ["deform", "area_um", "fl1_max", "image", "mask",
                         "verif_nd"]
    if kind == "child":
        # parent has n + 2 events, its filter drops the 2nd and the last
        p = root / ("par_%d.rtdc" % n)
        if not p.exists():
            gen.write_rtdc(p, list(range(1, n + 3)), feats=FEATS_FILE)
        par_ = dclab.new_dataset(p)
        par_.filter.manual[1] = False
        par_.filter.manual[-1] = False
        par_.apply_filter()
        ch = dclab.new_dataset(par_)
        toks = [1] + list(range(3, n + 2))
        return ch, toks, list(FEATS_FILE)
    if kind == "basin":
        from dclab.rtdc_dataset import RTDCWriter
        o = root / ("orig_%d.rtdc" % n)
        b = root / ("ref_%d.rtdc" % n)
        if not b.exists():
            gen.write_rtdc(o, list(range(1, n + 1)), feats=FEATS_FILE)
            m = {k: dict(v) for k, v in gen.META.items()}
            with RTDCWriter(b, mode="reset") as hw:
                hw.store_metadata(m)
                hw.store_feature("deform", gen.scalar("deform",
                                                      range(1, n + 1)))
                hw.store_basin("orig", "file", "hdf5", [str(o)],
                               basin_feats=["area_um", "image", "mask",
                                            "fl1_max", "frame"])
        return dclab.new_dataset(b), list(range(1, n + 1)), [
            "deform", "area_um", "image", "mask", "fl1_max", "frame"]
    raise ValueError(kind)


def _replay(job):
    import dclab
    import h5py
    from dclab.rtdc_dataset import writer
    case, kind, root = job
    writer.CHUNK_SIZE_BYTES = 200
    n, mask, filtered = case["n"], set(case["mask"]), case["filtered"]
    out = []
    try:
        ds, toks, feats = build_source(kind, n, root)
    except Exception as exc:
        return {"kind": kind, "n": n}, [("building the source raises "
                                         + type(exc).__name__, repr(exc))]
    want = [toks[i - 1] for i in case["exported"]]
    try:
        ds.filter.manual[:] = [i + 1 in mask for i in range(len(ds))]
        ds.apply_filter()
        import os
        op = root / ("out_%d_%d.rtdc" % (os.getpid(), _replay.k))
        _replay.k += 1
        req = feats + [feats[0]]                      # duplicate in the list
        # the measurement's metadata as they are before anything is exported
        cfg0 = {sec: dict(ds.config[sec]) for sec in
                ("experiment", "setup", "imaging", "user")
                if sec in ds.config}
        ds.export.hdf5(op, features=req, filtered=filtered, logs=True,
                       tables=True, basins=False, override=True)
        # a second, unfiltered export from the same dataset instance carries
        # the measurement's own metadata (incl. its run identifier)
        op2 = op.with_name(op.stem + "_second.rtdc")
        ds.export.hdf5(op2, features=[feats[0]], filtered=False,
                       basins=False, override=True)
        with dclab.new_dataset(op2) as ex2:
            for sec, kv in cfg0.items():
                for k, v in kv.items():
                    if (sec, k) in (("experiment", "event count"),
                                    ("setup", "software version")):
                        continue
                    if ex2.config.get(sec, {}).get(k) != v:
                        out.append(("metadata of a later export from the "
                                    "same dataset differ from the "
                                    "measurement's", "%s:%s %r vs %r" % (
                                        sec, k, ex2.config.get(sec, {}).get(
                                            k), v)))
        op2.unlink()
        # --- read back
        with h5py.File(op, "r") as h5:
            have = sorted(h5.get("events", {}).keys())
            cnt = h5.attrs.get("experiment:event count")
        if not want:
            if have:
                with h5py.File(op, "r") as h5:
                    if any(len(h5["events"][f]) for f in have):
                        out.append(("events exported for an empty selection",
                                    str(have)))
        else:
            with dclab.new_dataset(op) as ex:
                if len(ex) != len(want) or int(cnt) != len(want):
                    out.append(("event count wrong", "%s/%s vs %d" % (
                        len(ex), cnt, len(want))))
                for f in feats:
                    if f not in ex.features_innate:
                        out.append(("requested feature missing in export",
                                    f))
                        continue
                    if f == "verif_nd":
                        nd = np.asarray(ds["verif_nd"][:])
                        idx = [i - 1 for i in case["exported"]]
                        ok = np.array_equal(np.asarray(ex[f][:]), nd[idx])
                        got = "values"
                    else:
                        got = gen.read_feature_ids(ex, f)
                        if isinstance(got, dict):
                            ok = all(v == want for v in got.values())
                        else:
                            ok = got == want
                    if not ok:
                        out.append(("%s: exported events differ from the "
                                    "selection" % (
                                        "non-scalar feature" if f in (
                                            "image", "mask", "contour",
                                            "trace", "verif_nd")
                                        else "scalar feature"),
                                    "%s: got %s want %s" % (f, got, want)))
                # metadata carried over
                for sec in ("experiment", "setup", "imaging", "user"):
                    for k, v in cfg0.get(sec, {}).items():
                        if (sec, k) in (("experiment", "event count"),
                                        ("setup", "software version")):
                            continue
                        if (sec, k) == ("experiment", "run identifier") \
                                and filtered:
                            continue
                        v2 = ex.config.get(sec, {}).get(k)
                        if v2 != v:
                            out.append(("metadata not carried over",
                                        "%s:%s %r vs %r" % (sec, k, v2, v)))
                if kind == "hdf5":
                    # every log / table of the source is there under the
                    # prefixed name, with its own content
                    want_logs = {"src_srclog": SRCLOG,
                                 "src_src_srclog": ["an older generation"]}
                    for nm, lines in want_logs.items():
                        if nm not in ex.logs or list(ex.logs[nm]) != lines:
                            out.append(("logs not carried over", "%s: %s" % (
                                nm, {k: len(v) for k, v in ex.logs.items()})))
                            break
                    want_tabs = {"src_srctab": np.arange(4.0) + 7,
                                 "src_src_srctab": np.arange(3.0) - 5}
                    for nm, col in want_tabs.items():
                        if nm not in ex.tables or not np.array_equal(
                                np.asarray(ex.tables[nm]["b"]).ravel(), col):
                            out.append(("tables not carried over", str(
                                list(ex.tables.keys()))))
                            break
        op.unlink()
        # --- tsv
        sc = [f for f in feats if f in ("deform", "area_um", "fl1_max",
                                        "frame")]
        tp = root / ("out_%d.tsv" % os.getpid())
        # (the file exists already: an earlier export of all events with
        # another column set is replaced, not continued)
        ds.export.tsv(tp, features=sc[:1], filtered=False, override=True)
        ds.export.tsv(tp, features=sc + [sc[0]], filtered=filtered,
                      override=True)
        with open(tp, encoding="utf-8-sig") as fd:
            rows = [ln for ln in fd if not ln.startswith("#") and ln.strip()]
        tab = np.array([[float(x) for x in ln.split("\t")] for ln in rows]) \
            if rows else np.zeros((0, len(set(sc))))
        cols = sorted(set(sc))
        if tab.shape != (len(want), len(cols)):
            out.append(("tsv has wrong shape", "%s vs %s" % (
                tab.shape, (len(want), len(cols)))))
        else:
            for j, f in enumerate(cols):
                exp = np.array([float("%.10e" % x)
                                for x in gen.scalar(f, want)])
                if not np.array_equal(tab[:, j], exp):
                    out.append(("tsv values differ from the selection",
                                "%s: %s vs %s" % (f, tab[:, j], exp)))
        tp.unlink()
        # --- tsv with a feature that holds NaN for every second event: the
        # rows are the selected events all the same
        if kind != "child":
            nanv = np.array([np.nan if t % 2 else 10.0 * t for t in toks])
            dclab.set_temporary_feature(ds, "verif_nan", nanv)
            ds.export.tsv(tp, features=["deform", "verif_nan"],
                          filtered=filtered, override=True)
            with open(tp, encoding="utf-8-sig") as fd:
                rows = [ln for ln in fd
                        if not ln.startswith("#") and ln.strip()]
            tab = np.array([[float(x) for x in ln.split("\t")]
                            for ln in rows]) if rows else np.zeros((0, 2))
            exp = np.array([[float("%.10e" % gen.scalar("deform", [t])[0]),
                             np.nan if t % 2 else 10.0 * t] for t in want]) \
                if want else np.zeros((0, 2))
            if tab.shape != exp.shape or not np.array_equal(
                    tab, exp, equal_nan=True):
                out.append(("tsv rows differ from the selection when a "
                            "feature holds NaN values",
                            "%s rows vs %s selected" % (len(tab), len(want))))
            tp.unlink()
    except Exception as exc:
        out.append(("export raises %s" % type(exc).__name__,
                    "%s n=%d mask=%s: %r" % (kind, n, sorted(mask), exc)))
    return {"kind": kind, "n": n, "mask": sorted(mask),
            "filtered": filtered, "exported": want}, out


_replay.k = 0


def ragged_cases(root):
    """a truncated recording: the image feature of the source file has three
    events fewer than the scalar features.  The export is limited to the
    events all requested features have; every feature of the output has that
    many events and so says the event count"""
    import dclab
    import h5py
    import warnings
    from dclab.rtdc_dataset import writer
    writer.CHUNK_SIZE_BYTES = 200
    out, n_ok = [], 0
    for n in (5, 12):
        src = root / ("ragged_%d.rtdc" % n)
        gen.write_rtdc(src, list(range(1, n + 1)),
                       feats=("deform", "area_um", "image"))
        with h5py.File(src, "a") as h5:
            h5["events/image"].resize(n - 3, axis=0)
        for mode in ("all selected", "one excluded", "unfiltered"):
            op = root / ("ragged_out_%d.rtdc" % n)
            try:
                with warnings.catch_warnings():
                    warnings.simplefilter("ignore")
                    with dclab.new_dataset(src) as ds:
                        if mode == "one excluded":
                            ds.filter.manual[1] = False
                        ds.apply_filter()
                        ds.export.hdf5(op, features=["deform", "area_um",
                                                     "image"],
                                       filtered=mode != "unfiltered",
                                       basins=False, override=True)
                with h5py.File(op, "r") as h5:
                    lens = {f: len(h5["events"][f]) for f in h5["events"]
                            if f in ("deform", "area_um", "image")}
                    cnt = int(h5.attrs["experiment:event count"])
                    ids = gen.decode_scalar("deform", h5["events/deform"][:])
                want = [i for i in range(1, n - 2)
                        if not (mode == "one excluded" and i == 2)]
                if len(set(lens.values())) != 1 or cnt != len(want) \
                        or ids != want:
                    out.append(("export of a source with features of unequal "
                                "length is not limited to the common events "
                                "(%s)" % mode,
                                "n=%d lengths %s count %s ids %s want %s" % (
                                    n, lens, cnt, ids, want)))
                n_ok += 1
            except Exception as exc:
                out.append(("export of a source with features of unequal "
                            "length raises %s (%s)" % (type(exc).__name__,
                                                       mode), repr(exc)[:120]))
            finally:
                if op.exists():
                    op.unlink()
    return n_ok, out


def tdms_cases(root, rng_seed, count):
    """exports of the repository's tdms fixtures, compared by value"""
    import dclab
    out, n_ok = [], 0
    rs = np.random.RandomState(rng_seed)
    for name in ("fmt-tdms_fl-image-bright_2017.zip",
                 "fmt-tdms_minimal_2016.zip"):
        z = "/repo/tests/data/" + name
        d = root / name[:-4]
        d.mkdir(exist_ok=True)
        with zipfile.ZipFile(z) as zf:
            zf.extractall(d)
        tdms = sorted(d.rglob("*.tdms"))
        tdms = [t for t in tdms if not t.name.endswith("_traces.tdms")]
        if not tdms:
            continue
        ds = dclab.new_dataset(tdms[0])
        n = len(ds)
        feats = []
        for f in ("deform", "area_um", "image", "contour", "trace", "mask"):
            if f not in ds.features_innate:
                continue
            try:       # the fixtures are truncated: keep what is complete
                if f == "trace":
                    for t in ds["trace"].keys():
                        assert len(ds["trace"][t]) == n
                        ds["trace"][t][n - 1]
                elif f in ("image", "contour", "mask"):
                    assert len(ds[f]) == n
                    for i in range(n):
                        ds[f][i]
                else:
                    assert len(ds[f]) == n
                feats.append(f)
            except Exception:
                pass
        for k in range(count):
            m = rs.rand(n) < rs.choice([0.1, 0.5, 0.9])
            if k == 0:
                m[:] = True
            ds.filter.manual[:] = m
            ds.apply_filter()
            op = root / "tdms_out.rtdc"
            try:
                ds.export.hdf5(op, features=feats, filtered=True,
                               override=True)
                idx = np.flatnonzero(m)
                with dclab.new_dataset(op) as ex:
                    for f in feats:
                        if f == "trace":
                            ok = all(np.array_equal(
                                ex["trace"][t][:],
                                np.array([ds["trace"][t][i] for i in idx]))
                                for t in ds["trace"].keys())
                        elif f in ("image", "mask", "contour"):
                            ok = len(ex[f]) == len(idx) and all(
                                np.array_equal(ex[f][j], ds[f][int(i)])
                                for j, i in enumerate(idx))
                        else:
                            ok = np.array_equal(ex[f][:], ds[f][:][idx])
                        if not ok:
                            out.append(("tdms source: exported %s differs"
                                        % f, "%s mask %d/%d" % (
                                            name, m.sum(), n)))
                n_ok += 1
            except Exception as exc:
                out.append(("tdms export raises " + type(exc).__name__,
                            repr(exc)[:200]))
    return n_ok, out


def main(tier, seed, replay=None):
    dclab = import_dclab()
    dclab.register_temporary_feature("verif_nd", is_scalar=False)
    dclab.register_temporary_feature("verif_nan", is_scalar=True)
    ev = evidence.Evidence(PID, tier, seed)
    rep = findings.Reporter(PID, ev)
    ev.rule = ("cases (source size, mask, filtered flag) enumerated by TLC "
               "from ExportSpec: every mask of sources up to MaxN events and, "
               "for a 23-event source, prefix/suffix/strided masks whose "
               "sizes straddle 1 and 2 export chunks (chunk forced to 10); "
               "each case is exported from an HDF5 file, an in-memory "
               "dataset (incl. a non-scalar temporary feature), a hierarchy "
               "child and a basin-backed file, with a duplicate in the "
               "feature list; the .rtdc is re-read and decoded to tokens and "
               "the .tsv parsed. tdms fixtures are exported and compared by "
               "value. non-trivial = 0 < |selection| < n; distinct by hash.")
    ev.assumptions = ["avi/fcs exporters are outside the property"]
    q = tier == "quick"
    ok = tlc.run("MC_Export", "INIT Init\nNEXT Next\nINVARIANT StacksCorrect"
                 "\nINVARIANT ExportIsSelection\nCONSTANTS\n MaxN = %d\n "
                 "Chunks <- MCChunks\n BigN = 23\n C0 = 10\n"
                 "CHECK_DEADLOCK FALSE\n" % (8 if q else 11), timeout=3000)
    ev.add_tlc("MC_Export StacksCorrect (both routes of the stack "
               "generator)", ok)
    if not ok.ok:
        raise tlc.TLCError("ExportSpec: %s\n%s" % (ok.violated, ok.cex))
    res = tlc.run("MC_Export", "INIT EInit\nNEXT Next\nCONSTRAINT Emit\n"
                  "CONSTANTS\n MaxN = %d\n Chunks = {10}\n BigN = 23\n"
                  " C0 = 10\nCHECK_DEADLOCK FALSE\n" % (6 if q else 8),
                  workers=4, timeout=3000)
    ev.add_tlc("MC_Export case enumeration", res)
    seen, cases = set(), []
    for c in res.tagged("H"):
        if c["n"] == 0 or repr(c) in seen:
            continue
        seen.add(repr(c))
        cases.append(c)
    root = tlc.scratch_dir("vp_c02_")
    try:
        for nn in sorted({c["n"] for c in cases}):
            for k in KINDS:
                if k not in ("dict", "lazy"):
                    build_source(k, nn, root)[0].close()
        jobs = [(c, k, root) for c in cases for k in KINDS]
        for case, viols in par.pmap(_replay, jobs, chunk=20):
            ev.traces += 1
            ev.case(case, nontrivial=0 < len(case.get("exported", []))
                    < case["n"])
            for sig, detail in viols:
                rep.violation("%s [%s source]" % (sig, case["kind"]),
                              detail, case, size=case["n"])
        n_ok, viols = tdms_cases(root, seed, 3 if q else 25)
        ev.traces += n_ok
        ev.extra["tdms_exports"] = n_ok
        for sig, detail in viols:
            rep.violation(sig, detail, {}, size=50)
        n_ok, viols = ragged_cases(root)
        ev.traces += n_ok
        ev.extra["ragged_source_exports"] = n_ok
        for sig, detail in viols:
            rep.violation(sig, detail, {}, size=12)
    finally:
        shutil.rmtree(root, ignore_errors=True)
    return rep.finish()
