"""C14 - Basins are only followed when matching, acyclic and permitted.

spec: basin/BasinGraphSpec (reachability over usable basin definitions).
"""
import shutil
import json
import signal

import numpy as np

from .. import evidence, findings, gen, httpd, par, tlc
from ..shims import import_dclab

PID = "C14"
CFG = ("INIT {init}\nNEXT Next\nCONSTRAINT Emit\nINVARIANT "
       "NoLocalBelowRemote\nCONSTANTS\n K = {k}\n RootRid = \"{root}\"\n Rids <- {rids}\n"
       " EdgeKinds <- {kinds}\n SelfLoops = {sl}\n RemoteToo = {rt}\n"
       "CHECK_DEADLOCK FALSE\n")
FEAT = {1: "deform", 2: "area_um", 3: "bright_avg", 4: "pos_x", 5: "size_x",
        6: "size_y"}
RID = {"a": "verif-a", "ax": "verif-a-x1", "b": "verif-b", "x": "x1",
       "i": "a-x"}
N = 5


class Timeout(Exception):
    pass


def _alarm(*a):
    raise Timeout()


def build(case, d, url_of):
    from dclab.rtdc_dataset import RTDCWriter
    k = len(case["rid"])
    import zlib
    relstyle = zlib.crc32(json.dumps(case, sort_keys=True).encode()) % 2 == 1
    paths = {i: d / ("n%d.rtdc" % i) for i in range(1, k + 1)}
    for u in range(1, k + 1):
        meta = {s: dict(v) for s, v in gen.META.items()
                if s != "fluorescence"}
        if case["rid"][u - 1] == "none":
            # no identifier at all (the fall-back needs date, time and the
            # set-up identifier)
            meta["experiment"].pop("run identifier", None)
            meta["setup"].pop("identifier", None)
        else:
            meta["experiment"]["run identifier"] = RID[case["rid"][u - 1]]
        with RTDCWriter(paths[u], mode="reset") as hw:
            hw.store_metadata(meta)
            hw.store_feature(FEAT[u], gen.scalar(FEAT[u], range(1, N + 1)))
            for v in range(1, k + 1):
                kind = case["edge"][u - 1][v - 1]
                if kind == "none":
                    continue
                kw = dict(basin_name="b%d%d" % (u, v), verify=False,
                          basin_feats=None)
                if kind == "remote":
                    hw.store_basin(basin_type="remote", basin_format="http",
                                   basin_locs=[url_of(paths[v].name)], **kw)
                elif kind == "disguised":
                    # type remote, but format and location of a local file
                    hw.store_basin(basin_type="remote", basin_format="hdf5",
                                   basin_locs=[str(paths[v])], **kw)
                elif kind == "dangling":
                    # a location that does not exist, or one that is a
                    # directory
                    loc = d / ("missing_%d.rtdc" % v)
                    if (u + v) % 2:
                        loc = d / ("adir_%d_%d.rtdc" % (u, v))
                        loc.mkdir(exist_ok=True)
                    hw.store_basin(basin_type="file", basin_format="hdf5",
                                   basin_locs=[str(loc)], **kw)
                else:
                    if kind == "filemapped":
                        kw["basin_map"] = np.arange(N, dtype=np.uint64)
                    if kind == "fileempty":
                        kw["basin_feats"] = []
                    # how the location is given does not matter: absolute,
                    # relative to the referring file (the working directory
                    # is elsewhere), or a dangling absolute location
                    # followed by a relative one (every second graph)
                    locs = [str(paths[v])]
                    if relstyle:
                        locs = [paths[v].name] if (u + v) % 2 else [
                            str(d / "moved_away" / paths[v].name),
                            paths[v].name]
                    hw.store_basin(basin_type="file", basin_format="hdf5",
                                   basin_locs=locs, **kw)
    return paths


def _graph_once(job):
    import dclab
    import os
    from dclab.rtdc_dataset.fmt_http import RTDC_HTTP
    case, root, port = job
    # (the same few directory names are used over and over: what a location
    # holds is replaced between graphs, as happens to files on disk during
    # the life of a process)
    d = root / ("g%d_%d" % (os.getpid(), _graph_once.k % 3))
    _graph_once.k += 1
    shutil.rmtree(d, ignore_errors=True)
    d.mkdir()
    out = []
    offered = None

    def url_of(name):
        return "http://127.0.0.1:%d/%s/%s" % (port, d.name, name)
    try:
        paths = build(case, d, url_of)
        signal.signal(signal.SIGALRM, _alarm)
        signal.alarm(120)
        try:
            if case["remoteRoot"]:
                ds = RTDC_HTTP(url_of(paths[1].name))
            else:
                ds = dclab.new_dataset(paths[1])
            offered = []
            for kk, f in FEAT.items():
                if kk > len(case["rid"]):
                    continue
                has = f in ds
                try:
                    data = np.asarray(ds[f][:])
                    ok = gen.decode_scalar(f, data) == list(range(1, N + 1))
                    got = True
                except KeyError:
                    got, ok = False, True
                if has != got:
                    out.append(("availability of a basin feature disagrees "
                                "with reading it", "%s has=%s read=%s" % (
                                    f, has, got)))
                if got and not ok:
                    out.append(("basin feature holds wrong data", f))
                if got:
                    offered.append(kk)
            ds.close()
        except Timeout:
            out.append(("opening/reading a basin graph does not terminate",
                        str(case)))
        finally:
            signal.alarm(0)
        if offered is not None:
            want = sorted(case["offered"])
            extra = sorted(set(offered) - set(want))
            # features behind a network hop may be unavailable when the
            # location does not answer within dclab's 0.5 s time-out
            missing = sorted(set(case.get("mustlocal", want)) - set(offered))
            kinds = sorted({e for row in case["edge"] for e in row} - {"none"})
            if extra:
                out.append(("features of a basin that must not be followed "
                            "are offered (%s root, edge kinds %s)" % (
                                "http" if case["remoteRoot"] else "local",
                                "+".join(kinds)),
                            "offered %s, allowed %s, graph %s" % (
                                offered, want, case)))
            if missing:
                out.append(("features of a matching, permitted basin are "
                            "not offered (%s root, edge kinds %s)" % (
                                "http" if case["remoteRoot"] else "local",
                                "+".join(kinds)),
                            "offered %s, expected %s, graph %s" % (
                                offered, want, case)))
    except BaseException as exc:
        out.append(("opening a basin graph raises %s" % type(exc).__name__,
                    "%r %s" % (exc, case)))
    finally:
        shutil.rmtree(d, ignore_errors=True)
    return {"rid": case["rid"], "edge": case["edge"],
            "remoteRoot": case["remoteRoot"], "offered": offered}, out




def _graph(job):
    """graphs that involve the network are repeated when something other
    than a wrong offer was seen (dclab's own 0.5 s time-outs under load);
    what persists over three attempts is reported"""
    case = job[0]
    net = case["remoteRoot"] or any(
        e == "remote" for row in case["edge"] for e in row)
    res = _graph_once(job)
    tries = 1
    while net and tries < 3 and any(
            not sig.startswith("features of a basin that must not")
            for sig, _ in res[1]):
        res = _graph_once(job)
        tries += 1
    return res


_graph_once.k = 0


def main(tier, seed, replay=None):
    import_dclab()
    ev = evidence.Evidence(PID, tier, seed)
    rep = findings.Reporter(PID, ev)
    ev.rule = ("basin graphs enumerated by TLC from BasinGraphSpec with the "
               "set of files whose features may be offered (reachability "
               "over matching, permitted definitions): all graphs over 3 "
               "files with file / mapped-file definitions and all "
               "assignments of run identifiers (equal, prefix, unrelated, "
               "suffix and inner part of the referrer's), "
               "graphs with self references, and graphs with remote (http), "
               "dangling and local definitions opened locally and over a "
               "loop-back http server; every graph is written as real files, "
               "opened under a 120 s watchdog, every feature probed for "
               "availability, read and decoded. non-trivial = at least one "
               "basin definition.")
    ev.assumptions = ["S3 and DCOR access formats cannot be emulated here; "
                      "their shared rule (_local_basins_allowed) is "
                      "exercised through the http format only"]
    q = tier == "quick"
    root = tlc.scratch_dir("vp_c14_")
    srv = httpd.Server(root)
    try:
        plans = [("identifier relations K=2", dict(
            k=2, kinds="LocalKinds", sl="FALSE", rt="FALSE",
            rids="FiveRids"), 1),
                 ("identifier relations K=3", dict(
                     k=3, kinds="LocalKinds", sl="FALSE", rt="FALSE",
                     rids="FiveRids"), 60 if q else 2),
                 ("missing identifiers K=2", dict(
                     k=2, kinds="LocalKinds", sl="FALSE", rt="FALSE",
                     rids="NoneRids"), 1),
                 ("missing identifiers K=3", dict(
                     k=3, kinds="LocalKinds", sl="FALSE", rt="FALSE",
                     rids="NoneRids"), 20 if q else 1),
                 ("missing root identifier K=2", dict(
                     k=2, kinds="LocalKinds", sl="FALSE", rt="FALSE",
                     rids="NoneRids", root="none"), 1),
                 ("local graphs K=3", dict(k=3, kinds="LocalKinds",
                                           sl="FALSE", rt="FALSE"),
                  10 if q else 1),
                 ("self references K=2", dict(k=2, kinds="LocalKinds",
                                              sl="TRUE", rt="FALSE"), 1),
                 ("remote/dangling K=2", dict(k=2, kinds="AllKinds",
                                              sl="FALSE", rt="TRUE"), 1),
                 ("empty feature lists K=2", dict(
                     k=2, kinds="EmptyListKinds", sl="FALSE", rt="FALSE"), 1),
                 ("empty feature lists K=3", dict(
                     k=3, kinds="EmptyListKinds", sl="FALSE", rt="FALSE"),
                  60 if q else 6),
                 ("remote-typed local paths K=2", dict(
                     k=2, kinds="DisguisedKinds", sl="FALSE", rt="TRUE"), 1),
                 ("remote-typed local paths K=3", dict(
                     k=3, kinds="DisguisedKinds", sl="FALSE", rt="TRUE"),
                  200 if q else 20),
                 ("remote/dangling K=3", dict(k=3, kinds="AllKinds",
                                              sl="FALSE", rt="TRUE"),
                  600 if q else 40)]
        for k, samp in ((4, 8), (5, 20), (6, 60)):
            plans.append(("chains, cycles, diamonds K=%d" % k, dict(
                k=k, kinds="LocalKinds", sl="FALSE", rt="FALSE",
                init="ShapeInit"), samp if q else max(1, samp // 10)))
        for name, kw, samp in plans:
            kw.setdefault("rids", "ThreeRids")
            kw.setdefault("init", "MCInit")
            kw.setdefault("root", "ax")
            res = tlc.run("MC_BasinGraph", CFG.format(**kw), workers=8,
                          timeout=3000)
            if not res.ok:
                raise tlc.TLCError("BasinGraphSpec: %s\n%s" % (
                    res.violated, res.cex))
            ev.add_tlc("MC_BasinGraph " + name, res)
            seen, cases = set(), []
            for c in res.tagged("H"):
                s = str(c)
                if s not in seen:
                    seen.add(s)
                    cases.append(c)
            cases = par.sample(cases, samp, seed)
            ev.extra["graphs " + name] = len(cases)
            for case, viols in par.pmap(
                    _graph, [(c, root, srv.port) for c in cases], chunk=20):
                ev.traces += 1
                ev.case(case, nontrivial=any(
                    e != "none" for row in case["edge"] for e in row))
                for sig, detail in viols:
                    rep.violation(sig, detail, case, size=sum(
                        e != "none" for row in case["edge"] for e in row))
    finally:
        srv.close()
        shutil.rmtree(root, ignore_errors=True)
    return rep.finish()
