"""C13 - The integrity checker accepts dclab's own output and flags real
inconsistencies.

spec: storage/CheckerSpec (write paths x seeded corruptions x copies).
"""
import contextlib
import io
import shutil
import json
import zlib

import numpy as np

from .. import evidence, findings, gen, par, tlc
from ..shims import import_dclab

PID = "C13"
CFG = ("INIT Init\nNEXT Next\nCONSTRAINT Emit\nINVARIANT Closure\n"
       "CHECK_DEADLOCK FALSE\n")
BASE_FEATS = ("deform", "area_um", "contour", "trace", "fl1_max",
              "time", "frame", "pos_x", "index")


def feats_of(content, fl="fl1"):
    base = BASE_FEATS if fl == "fl1" else tuple(
        f for f in BASE_FEATS if f not in ("trace", "fl1_max")) + (
            fl + "_max",)
    return base + tuple(sorted(content))


def meta_of(fl):
    if fl == "fl1":
        return None
    k = fl[2]
    fm = dict(gen.META["fluorescence"])
    fm.pop("channel 1 name")
    fm["channel %s name" % k] = "FL" + k
    fm.pop("samples per event", None)
    return {"fluorescence": fm}
KEYWORDS = {
    "feature length differs from the event count": "wrong event count",
    "image size contradicts the ROI metadata": "roi size",
    "unknown feature": "Unknown key",
    "mandatory metadata missing": "Missing key",
    "index does not enumerate the events": "not enumerated",
    "fluorescence channel count contradicts the data":
        "channel count inconsistent",
    "laser count contradicts the metadata": "laser count inconsistent",
    "samples per event contradict the trace length": "samples per event",
    "external link": "external link",
    "non-positive set-up value": "Invalid value for",
}


def produce(path_kind, d, content, fl="fl1"):
    """a file written by one of dclab's write paths"""
    import dclab
    from dclab import cli
    from dclab.rtdc_dataset import RTDCWriter, writer
    # 13 events; the filtered export and the first split part hold 11: one
    # more than the (forced) chunk length of 10
    n = 13
    writer.CHUNK_SIZE_BYTES = 200
    FEATS = feats_of(content, fl)
    META2 = meta_of(fl)
    ids = list(range(1, n + 1))
    base = d / "base.rtdc"
    gen.write_rtdc(base, ids, feats=FEATS, logs={"l": ["x"]}, meta=META2)
    out = d / "file.rtdc"
    with contextlib.redirect_stdout(io.StringIO()):
        if path_kind == "writer":
            return base
        if path_kind == "writer-appended":
            gen.write_rtdc(out, ids, feats=FEATS, partition=[3, 1, 4, 5])
        elif path_kind in ("export", "export-filtered"):
            with dclab.new_dataset(base) as ds:
                if path_kind == "export-filtered":
                    ds.filter.manual[[1, 5]] = False
                    ds.apply_filter()
                ds.export.hdf5(out, features=[f for f in FEATS],
                               filtered=path_kind == "export-filtered")
        elif path_kind == "compress":
            cli.compress(path_in=base, path_out=out, force=True)
        elif path_kind == "repack":
            cli.repack(path_in=base, path_out=out)
        elif path_kind == "condense":
            cli.condense(path_in=base, path_out=out)
        elif path_kind == "split-part":
            parts = cli.split(path_in=base, path_out=d, split_events=11,
                              ret_out_paths=True, verbose=False)
            return parts[0]
        elif path_kind == "join":
            b2 = d / "base2.rtdc"
            gen.write_rtdc(b2, [100 + i for i in ids], feats=FEATS,
                           meta={"experiment": {"time": "12:00:07"}})
            cli.join(paths_in=[base, b2], path_out=out)
    return out


#: mandatory metadata (documented: "keys that must be present for every
#: measurement" / "for fluorescence measurements"), without the keys other
#: corruption classes use and those the writer derives from the data
MANDATORY = ["experiment:date", "experiment:run index", "experiment:sample",
             "experiment:time", "imaging:flash device",
             "imaging:flash duration", "imaging:frame rate",
             "imaging:pixel size", "imaging:roi position x",
             "imaging:roi position y", "setup:channel width",
             "setup:chip region", "setup:flow rate", "setup:medium"]
MANDATORY_FL = ["fluorescence:bit depth", "fluorescence:channels installed",
                "fluorescence:lasers installed", "fluorescence:sample rate",
                "fluorescence:signal max", "fluorescence:signal min",
                "fluorescence:trace median"]


def corrupt(path, c, d, salt=0, others=()):
    import h5py
    with h5py.File(path, "a") as h5:
        ev = h5["events"]
        if c == "len":
            f = "area_um" if "area_um" in ev else sorted(
                k for k in ev if isinstance(ev[k], h5py.Dataset)
                and k != "deform")[0]
            data = ev[f][:]
            del ev[f]
            ev.create_dataset(f, data=data[:-2])
        elif c == "roi":
            h5.attrs["imaging:roi size x"] = 99
        elif c == "unknown":
            ev.create_dataset("peter", data=np.arange(len(ev["deform"]),
                                                      dtype=float))
        elif c == "missing":
            # (one of the mandatory keys, in turn; together with a zero
            # channel width always the channel width)
            # (not a key another corruption of the same file is about)
            taken = {"pixneg": "imaging:pixel size",
                     "flowzero": "setup:flow rate",
                     "chwzero": "setup:channel width"}
            cand = [k for k in MANDATORY
                    if k not in {taken.get(o) for o in others}]
            key = cand[salt % len(cand)]
            if key not in h5.attrs:
                key = "setup:channel width"
            del h5.attrs[key]
        elif c == "index":
            if "index" in ev:
                ev["index"][:] = ev["index"][:][::-1]
            else:
                ev.create_dataset("index", data=np.arange(
                    len(ev["deform"]))[::-1] + 1)
        elif c == "indexlen":
            n = len(ev["deform"])
            if "index" in ev:
                del ev["index"]
            ev.create_dataset("index", data=np.arange(1, max(n - 1, 1)))
        elif c == "indexoffset":
            n = len(ev["deform"])
            if "index" in ev:
                del ev["index"]
            ev.create_dataset("index", data=np.arange(n) + (
                0 if n % 2 else 8))
        elif c == "nopower":
            del h5.attrs["fluorescence:laser 1 power"]
        elif c == "flmissing":
            key = MANDATORY_FL[salt % len(MANDATORY_FL)]
            if key not in h5.attrs:
                key = "fluorescence:sample rate"
            del h5.attrs[key]
        elif c == "chcount":
            h5.attrs["fluorescence:channel count"] = 3
        elif c == "chcount0":
            h5.attrs["fluorescence:channel count"] = 0
        elif c == "lasers0":
            h5.attrs["fluorescence:laser count"] = 0
        elif c == "lasers":
            h5.attrs["fluorescence:laser count"] = 2
        elif c == "samples":
            h5.attrs["fluorescence:samples per event"] = 77
        elif c == "extlink":
            with h5py.File(d / "ext.h5", "w") as e:
                e["x"] = np.arange(len(ev["deform"]), dtype=float)
            ev["pos_y"] = h5py.ExternalLink(str(d / "ext.h5"), "/x")
        elif c == "flowzero":
            h5.attrs["setup:flow rate"] = 0.0
        elif c == "pixneg":
            h5.attrs["imaging:pixel size"] = -0.34
        elif c == "chwzero":
            h5.attrs["setup:channel width"] = 0.0


def _case(job):
    import os
    from dclab import cli
    from dclab.rtdc_dataset.check import check_dataset
    case, root = job
    d = root / ("k%d_%d" % (os.getpid(), _case.k))
    _case.k += 1
    d.mkdir()
    out = []
    try:
        try:
            p = produce(case["path"], d, case["content"], case.get("fl", "fl1"))
        except BaseException as exc:
            return dict(case), [("write path %s raises %s" % (
                case["path"], type(exc).__name__), repr(exc)[:200])]
        for c in sorted(case["corr"]):
            corrupt(p, c, d, salt=zlib.crc32(json.dumps(
                case, sort_keys=True).encode()), others=case["corr"])
        try:
            viol, alerts, info = check_dataset(p)
        except BaseException as exc:
            return dict(case), [("check_dataset raises %s (corruptions: %s)"
                                 % (type(exc).__name__,
                                    "+".join(sorted(case["corr"])) or "none"),
                                 repr(exc)[:200])]
        if not case["corr"] and viol:
            out.append(("violations reported for a file written by dclab "
                        "(%s)" % case["path"], str(viol)[:300]))
        for cls in case["expected"]:
            if not any(KEYWORDS[cls] in v for v in viol):
                out.append(("inconsistency not reported as a violation: %s"
                            % cls, "path %s corruptions %s: %s" % (
                                case["path"], sorted(case["corr"]), viol)))
        if case["copied"] != "no":
            q = d / "copy.rtdc"
            try:
                with contextlib.redirect_stdout(io.StringIO()):
                    if case["copied"] == "compress":
                        cli.compress(path_in=p, path_out=q, force=True)
                    else:
                        cli.repack(path_in=p, path_out=q)
                v2, _, _ = check_dataset(q)
                if sorted(v2) != sorted(viol):
                    out.append(("%s changes the reported violations"
                                % case["copied"], "%s vs %s" % (v2, viol)))
            except BaseException as exc:
                out.append(("%s of a checked file raises %s" % (
                    case["copied"], type(exc).__name__), repr(exc)[:200]))
        # exit code of the command-line entry point
        if not case["corr"]:
            from dclab.cli import task_verify_dataset as tv
            try:
                with contextlib.redirect_stdout(io.StringIO()):
                    rc = tv.verify_dataset(path_in=p)
                if rc not in (0, 1, None):     # 1 = alerts only
                    out.append(("dclab-verify-dataset reports a non-zero "
                                "exit code that signals violations for a clean file", str(rc)))
            except SystemExit as se:
                if se.code not in (0, 1, None):
                    out.append(("dclab-verify-dataset reports a non-zero "
                                "exit code that signals violations for a clean file",
                                str(se.code)))
            except BaseException:
                pass
    finally:
        shutil.rmtree(d, ignore_errors=True)
    return dict(case), out


_case.k = 0


def main(tier, seed, replay=None):
    import_dclab()
    ev = evidence.Evidence(PID, tier, seed)
    rep = findings.Reporter(PID, ev)
    ev.rule = ("CheckerSpec enumerates write path (writer, writer with "
               "appends, export, filtered export, compress, repack, "
               "condense, split part, join) x image-shaped content (every "
               "subset of image, image_bg, mask; subsets other than "
               "image+mask with the corruptions that depend on it) x every set of at most two of 13 "
               "seeded corruptions (feature length, ROI size, unknown "
               "feature, missing mandatory key, index order, index offset, "
               "channel count, "
               "laser count, samples per event, external link, non-positive "
               "flow rate / pixel size / channel width) x copy by compress / "
               "repack; each file is produced by the real write path from a "
               "generated dataset with complete metadata, corrupted with raw "
               "h5py and checked: uncorrupted files must have no violation, "
               "every applied corruption's class must be among the "
               "violations, copies must receive the same violations. "
               "non-trivial = at least one corruption.")
    ev.assumptions = ["violation classes are recognised by a keyword of the "
                      "message; message wording itself is not claimed"]
    q = tier == "quick"
    res = tlc.run("CheckerSpec", CFG, workers=4, timeout=900)
    if not res.ok:
        raise tlc.TLCError("CheckerSpec: %s" % res.violated)
    ev.add_tlc("CheckerSpec cases", res)
    seen, cases = set(), []
    for c in res.tagged("H"):
        s = str(c)
        if s not in seen:
            seen.add(s)
            cases.append(c)
    clean = [c for c in cases if not c["corr"]]
    rest = par.sample([c for c in cases if c["corr"]], 3 if q else 1, seed)
    root = tlc.scratch_dir("vp_c13_")
    try:
        for case, viols in par.pmap(_case, [(c, root) for c in clean + rest],
                                    chunk=6):
            ev.traces += 1
            ev.case(case, nontrivial=bool(case["corr"]))
            for sig, detail in viols:
                rep.violation(sig, detail, case, size=len(case["corr"]))
    finally:
        shutil.rmtree(root, ignore_errors=True)
    return rep.finish()
