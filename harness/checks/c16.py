"""C16 - Downsampling returns a reproducible subset of the requested size.

specs: dataset/DownsampleSpec (post-condition + transcription of the grid
algorithm's branches), DownsampleTrace.
"""
import random

import numpy as np

from .. import evidence, findings, par, tlc, tracecheck
from ..shims import import_dclab

PID = "C16"
CFG = ("INIT Init\nNEXT Next\n{inv}CONSTANTS\n MaxN = {n}\n Cells <- MCCells\n"
       " MaxReq = {r}\n PadClamped = {pc}\nCHECK_DEADLOCK FALSE\n")
TRACE = "INIT TInit\nNEXT TStep\nCONSTRAINT Report\nCHECK_DEADLOCK FALSE\n"

VARIANTS = ("duplicates", "clustered", "constant", "spread")


def realise(pts, variant):
    """abstract points -> two float arrays (invalid: nan / inf in a or b)"""
    n = len(pts)
    a = np.zeros(n)
    b = np.zeros(n)
    for i, p in enumerate(pts):
        c = p["cell"]
        if variant == "duplicates":
            a[i], b[i] = c, 2.0 * c
        elif variant == "clustered":
            a[i], b[i] = 100.0 * c + 1e-3 * i, 50.0 * c - 1e-3 * i
        elif variant == "constant":
            a[i], b[i] = 7.5, -2.25
        else:
            a[i], b[i] = 10.0 * c + i, 3.0 * i - c
        if not p["valid"]:
            k = i % 4
            if k == 0:
                a[i] = np.nan
            elif k == 1:
                b[i] = np.inf
            elif k == 2:
                a[i] = -np.inf
            else:
                b[i] = np.nan
    return a, b


def check_result(a, idx, ret, eligible, required, n_in):
    """-> None or reason"""
    idx = np.asarray(idx)
    if idx.dtype != bool or idx.shape != (n_in,):
        return "mask has wrong type or length"
    sel = set(int(i) + 1 for i in np.flatnonzero(idx))
    if not sel <= set(eligible):
        return "selects ineligible point"
    if len(sel) != required:
        return "wrong number returned"
    if not np.array_equal(np.asarray(ret), a[idx], equal_nan=True):
        return "returned values are not the input under the mask"
    return None


def _replay(job):
    from dclab import downsampling as dsm, cached
    import dclab
    case, variant = job
    pts, n, rm = case["pts"], case["n"], case["rmInv"]
    a, b = realise(pts, variant)
    a0, b0 = a.copy(), b.copy()
    out = []

    def attempt(name, fn, eligible, required):
        try:
            r1 = fn()
            if name == "get_downsampled_scatter":
                # a caller that changes what it was handed: the next
                # identical request still returns events of the dataset
                r1 = dict(r1, ret=np.array(r1["ret"], copy=True),
                          handed=r1["ret"])
                if r1["handed"].flags.writeable and r1["handed"].size:
                    r1["handed"][...] = -777.0
            r2 = fn()
            if name == "get_downsampled_scatter":
                bad2 = check_result(r2["src"], r2["idx"], r2["ret"],
                                    eligible, required, r2["n_in"])
                if bad2:
                    out.append(("%s after the caller changed the arrays of "
                                "an earlier identical request: %s" % (
                                    name, bad2), ""))
            cached.Cache._keys = []      # = clear_cache() minus gc.collect()
            cached.Cache._cache = {}
            r3 = fn()
        except Exception as exc:
            vv = [(a[i], b[i]) for i in range(len(a))
                  if np.isfinite(a[i]) and np.isfinite(b[i])]
            if n > len(pts):
                more = "more samples requested than points exist"
            elif len(vv) > 1 and len(set(vv)) == 1:
                more = "all valid points identical"
            else:
                more = "request within data size"
            out.append(("%s raises %s (%s)" % (name, type(exc).__name__,
                                               more), repr(exc)[:120]))
            return
        bad = check_result(r1["src"], r1["idx"], r1["ret"], eligible,
                           required, r1["n_in"])
        if bad:
            out.append(("%s: %s" % (name, bad), "mask %s eligible %s "
                        "required %d" % (np.flatnonzero(r1["idx"]) + 1,
                                         eligible, required)))
        elif not (np.array_equal(r1["idx"], r2["idx"])
                  and np.array_equal(r1["idx"], r3["idx"])):
            out.append(("%s: not reproducible" % name, ""))

    # downsample_grid
    def grid():
        asd, bsd, idx = dsm.downsample_grid(a, b, n, rm, True)
        if not np.array_equal(bsd, b[idx], equal_nan=True):
            raise AssertionError("second array altered")
        return {"src": a, "idx": idx, "ret": asd, "n_in": len(a)}
    attempt("downsample_grid", grid, case["eligible"], case["required"])

    # downsample_rand works on one array: validity of `a` alone
    va = [i + 1 for i in range(len(a)) if np.isfinite(a[i])]
    elig = va if rm else list(range(1, len(a) + 1))
    req = n if (0 < n < len(elig)) else len(elig)

    def rand():
        dsa, idx = dsm.downsample_rand(a, n, rm, True)
        return {"src": a, "idx": idx, "ret": dsa, "n_in": len(a)}
    attempt("downsample_rand", rand, elig, req)

    # dataset level: two extra events excluded by the filter
    if len(pts) >= 1 and variant != "constant":
        xa = np.concatenate([[1.0], a, [2.0]])
        yb = np.concatenate([[1.0], b, [2.0]])
        ds = dclab.new_dataset({"area_um": xa, "deform": yb})
        ds.filter.manual[0] = False
        ds.filter.manual[-1] = False
        ds.apply_filter()

        def scatter():
            x, y, m = ds.get_downsampled_scatter(
                xax="area_um", yax="deform", downsample=n,
                remove_invalid=rm, ret_mask=True)
            if not np.array_equal(y, yb[m], equal_nan=True):
                raise AssertionError("y altered")
            return {"src": xa, "idx": m, "ret": x, "n_in": len(xa)}
        attempt("get_downsampled_scatter", scatter,
                [e + 1 for e in case["eligible"]], case["required"])
        # after reset_filter() every event is eligible at once (the filter
        # arrays are all-True again), whatever was requested before
        try:
            ds.reset_filter()
            xr, yr, mr = ds.get_downsampled_scatter(
                xax="area_um", yax="deform", downsample=0,
                remove_invalid=False, ret_mask=True)
            if not (np.all(ds.filter.all) and np.all(mr) and len(mr) == len(xa)
                    and np.array_equal(xr, xa, equal_nan=True)):
                out.append(("get_downsampled_scatter after reset_filter: "
                            "not all events are returned",
                            "%d of %d" % (int(np.sum(mr)), len(xa))))
        except Exception as exc:
            out.append(("get_downsampled_scatter after reset_filter raises "
                        + type(exc).__name__, repr(exc)[:100]))
        # log scale: points that are finite but not positive are invalid
        # on a logarithmic axis (same abstract validity pattern)
        xl = xa.copy()
        for i, pnt in enumerate(pts):
            if not pnt["valid"]:
                xl[i + 1] = 0.0 if i % 2 else -3.0 - i
        yl = np.where(np.isfinite(yb), yb, 1.0)
        dsl = dclab.new_dataset({"area_um": xl, "deform": yl})
        dsl.filter.manual[0] = False
        dsl.filter.manual[-1] = False
        dsl.apply_filter()

        def scatter_log():
            x, y, m = dsl.get_downsampled_scatter(
                xax="area_um", yax="deform", downsample=n, xscale="log",
                remove_invalid=rm, ret_mask=True)
            if not np.array_equal(y, yl[m], equal_nan=True):
                raise AssertionError("y altered")
            return {"src": xl, "idx": m, "ret": x, "n_in": len(xl)}
        attempt("get_downsampled_scatter", scatter_log,
                [e + 1 for e in case["eligible"]], case["required"])
        # event limit: all qualifying events are eligible
        ds2 = dclab.new_dataset({"area_um": xa, "deform": yb})
        ds2.filter.manual[0] = False
        ds2.config["filtering"]["limit events"] = n
        try:
            ds2.apply_filter()
            k = int(ds2.filter.all.sum())
            want = n if 0 < n < len(xa) - 1 else len(xa) - 1
            if k != want or ds2.filter.all[0]:
                out.append(("limit events: wrong number selected",
                            "%d vs %d" % (k, want)))
            # the same dataset, the same limit, the same NUMBER of
            # eligible events but another set of them: the selection is a
            # subset of the now eligible events and the one a fresh dataset
            # in this state gives
            first = ds2.filter.all.copy()
            ds2.filter.manual[0] = True
            ds2.filter.manual[-1] = False
            ds2.apply_filter()
            sel = ds2.filter.all
            ds3 = dclab.new_dataset({"area_um": xa, "deform": yb})
            ds3.filter.manual[-1] = False
            ds3.config["filtering"]["limit events"] = n
            ds3.apply_filter()
            if int(sel.sum()) != want or sel[-1]:
                out.append(("limit events: selection after a filter change "
                            "is not a subset of the eligible events of the "
                            "requested size", "%s" % sel.astype(int)))
            elif not np.array_equal(sel, ds3.filter.all):
                out.append(("limit events: selection depends on earlier "
                            "applications (not reproducible)",
                            "%s vs fresh %s (before: %s)" % (
                                sel.astype(int), ds3.filter.all.astype(int),
                                first.astype(int))))
        except Exception as exc:
            out.append(("limit events raises " + type(exc).__name__,
                        repr(exc)[:100]))
    if not (np.array_equal(a, a0, equal_nan=True)
            and np.array_equal(b, b0, equal_nan=True)):
        out.append(("input arrays modified", ""))
    return {"variant": variant, "valid": [p["valid"] for p in pts],
            "cells": [p["cell"] for p in pts], "n": n, "rmInv": rm,
            "required": case["required"]}, out


def record(rng, kind):
    """one call on a large random input, logged as counts"""
    from dclab import downsampling as dsm
    total = rng.choice([0, 1, 2, 50, 1000, 20000, 100000])
    rs = np.random.RandomState(rng.randrange(2**31))
    shape = rng.choice(["uniform", "clustered", "ties"])
    if shape == "uniform":
        a, b = rs.rand(total), rs.rand(total)
    elif shape == "clustered":
        a = rs.normal(0, 1e-3, total) + rs.randint(0, 3, total)
        b = rs.normal(0, 1e-3, total) + rs.randint(0, 2, total)
    else:
        a = rs.randint(0, 5, total).astype(float)
        b = rs.randint(0, 4, total).astype(float)
    if total and rng.random() < 0.8:
        k = rng.choice([1, total // 10, total // 2, total])
        pos = rs.choice(total, size=min(k, total), replace=False)
        a[pos[::2]] = np.nan
        b[pos[1::2]] = np.inf
    if kind == "rand":
        nvalid = int(np.isfinite(a).sum())
    else:
        nvalid = int((np.isfinite(a) & np.isfinite(b)).sum())
    n = rng.choice([0, 1, max(nvalid - 1, 0), nvalid, nvalid + 1,
                    max(total - 1, 0), total, total + 1, total + 7,
                    rng.randrange(0, total + 2)])
    rm = rng.random() < 0.5
    rec = {"kind": kind, "shape": shape, "total": int(total),
           "nvalid": nvalid, "n": int(n), "rmInv": rm, "raised": False,
           "returned": 0, "subsetOK": True, "unchanged": True,
           "deterministic": True}
    try:
        if kind == "rand":
            r, idx = dsm.downsample_rand(a, n, rm, True)
            r2, idx2 = dsm.downsample_rand(a, n, rm, True)
            okb = True
            valid = np.isfinite(a)
        else:
            r, rb, idx = dsm.downsample_grid(a, b, n, rm, True)
            r2, _, idx2 = dsm.downsample_grid(a.copy(), b.copy(), n, rm, True)
            okb = np.array_equal(rb, b[idx], equal_nan=True)
            valid = np.isfinite(a) & np.isfinite(b)
        rec["returned"] = int(idx.sum())
        rec["subsetOK"] = bool(not rm or not np.any(idx & ~valid))
        rec["unchanged"] = bool(okb and np.array_equal(r, a[idx],
                                                       equal_nan=True))
        rec["deterministic"] = bool(np.array_equal(idx, idx2))
    except Exception as exc:
        rec["raised"] = True
        rec["exc"] = type(exc).__name__
    return rec


def main(tier, seed, replay=None):
    import_dclab()
    ev = evidence.Evidence(PID, tier, seed)
    rep = findings.Reporter(PID, ev)
    ev.rule = ("every input (validity pattern x occupancy of grid cells) up "
               "to MaxN points x every request 0..MaxN+2 x both modes is "
               "enumerated by TLC from DownsampleSpec with the eligible set "
               "and the required count; each is realised as duplicate-heavy/"
               "clustered/constant/spread float arrays and given to "
               "downsample_grid, downsample_rand, get_downsampled_scatter "
               "(filtered dataset) and the event-limit filter; the mask must "
               "select only eligible points, have the required size, the "
               "values must be the inputs under the mask and repetitions "
               "(cache hit and cleared cache) must agree. Large random inputs "
               "are recorded as counts and judged by TLC (DownsampleTrace). "
               "non-trivial = at least one point and a request below the "
               "total; distinct by hash.")
    ev.assumptions = ["compiled extension as installed (no Cython here)"]
    q = tier == "quick"
    nmax = 5 if q else 6
    ok = tlc.run("MC_Downsample", CFG.format(inv="INVARIANT GridCorrect\n",
                                             n=nmax, r=nmax + 2, pc="TRUE"),
                 timeout=3000)
    ev.add_tlc("MC_Downsample GridCorrect (PadClamped)", ok)
    if not ok.ok:
        raise tlc.TLCError("grid model violates post-condition\n" + ok.cex)
    bad = tlc.run("MC_Downsample", CFG.format(inv="INVARIANT GridCorrect\n",
                                              n=3, r=5, pc="FALSE"))
    ev.extra["deviation_model_counterexample"] = bad.violated
    if bad.ok:
        raise tlc.TLCError("unclamped padding no longer yields a "
                           "counterexample")
    res = tlc.run("MC_Downsample", CFG.format(inv="CONSTRAINT Emit\n",
                                              n=nmax, r=nmax + 2, pc="TRUE"),
                  workers=8, timeout=3000)
    ev.add_tlc("MC_Downsample input enumeration N<=%d" % nmax, res)
    seen, cases = set(), []
    for c in res.tagged("H"):
        key = repr(c)
        if key not in seen:
            seen.add(key)
            cases.append(c)
    if q:
        cases = par.sample(cases, 2, seed)
    jobs = [(c, VARIANTS[(i + seed) % 4]) for i, c in enumerate(cases)]
    if not q:
        jobs = [(c, v) for c in cases for v in VARIANTS]
    for case, viols in par.pmap(_replay, jobs, chunk=200):
        ev.traces += 1
        ev.case(case, nontrivial=len(case["valid"]) > 0 and
                0 < case["n"] < len(case["valid"]))
        for sig, detail in viols:
            rep.violation(sig, "%s %s" % (case, detail), case,
                          size=len(case["valid"]))
    # code -> spec
    rng = random.Random(seed * 613 + 16)
    recs = [record(rng, rng.choice(["rand", "grid"]))
            for _ in range(150 if q else 1500)]
    res2, okset, rej = tracecheck.validate("DownsampleTrace", TRACE, recs,
                                           workers=4)
    ev.add_tlc("DownsampleTrace (%d recorded calls)" % len(recs), res2)
    ev.traces += len(okset)
    ev.extra["recorded_calls"] = len(recs)
    ev.extra["recorded_calls_accepted"] = len(okset)
    for tid, (_, why) in sorted(rej.items()):
        r = recs[tid - 1]
        if why == "raised":
            sig = "downsample_%s raises %s (%s)" % (
                r["kind"], r.get("exc"),
                "more samples requested than points exist"
                if r["n"] > r["total"] else "request within data size")
        else:
            sig = "downsample_%s: %s" % (r["kind"], why)
        rep.violation(sig, str(r), r, size=1000)
    return rep.finish()
