"""C12 - Statistics and density estimates use exactly the filtered events.

specs: dataset/StatsSpec (non-interference + exact rational statistics),
StatsTrace (quantile law on recorded larger datasets).
"""
import math
import random
import shutil
import warnings

import numpy as np

from .. import evidence, findings, par, tlc, tracecheck
from ..shims import import_dclab

PID = "C12"
CFG = ("INIT Init\nNEXT Next\nCONSTRAINT Emit\nCONSTANTS\n N = 6\n"
       " Insts <- MCInsts\n DataOf <- MCDataOf\nCHECK_DEADLOCK FALSE\n")
TRACE = "INIT TInit\nNEXT TStep\nCONSTRAINT Report\nCHECK_DEADLOCK FALSE\n"
DATA = {1: [1, 2, 3, 4, 5, 6], 2: [3, 99, 1, 50, 7, 1],
        3: [2, 2, 2, 5, 5, -50], 4: [-4, 0, 9, 9, -4, 3]}
KDES = ("histogram", "gauss", "multivariate", "none")


def val(v):
    return {99: np.nan, 50: np.inf, -50: -np.inf}.get(v, float(v))


def build(case):
    """-> (filtered full dataset, dataset of the used events only)"""
    import dclab
    n = 6
    x = np.array([val(v) for v in DATA[case["inst"]]])
    y = np.arange(1, n + 1) * 10.0 + 5
    used = sorted(case["used"])
    xa, ya = x.copy(), y.copy()
    if case["poison"]:
        wild = [1e9, np.nan, -np.inf, -7e6, np.inf, 123456.0]
        for i in range(n):
            if i + 1 not in used:
                xa[i] = wild[i]
                ya[i] = 1e12 if i % 2 else np.nan
    A = dclab.new_dataset({"deform": xa, "area_um": ya})
    A.config["setup"]["flow rate"] = 0.04
    A.filter.manual[:] = [i + 1 in case["mask"] for i in range(n)]
    A.config["filtering"]["enable filters"] = bool(case["enabled"])
    A.config["filtering"]["limit events"] = int(case.get("limit", 0))
    A.apply_filter()
    idx = [i - 1 for i in used]
    if idx:
        B = dclab.new_dataset({"deform": x[idx], "area_um": y[idx]})
        B.config["setup"]["flow rate"] = 0.04
        B.apply_filter()
    else:
        B = None
    return A, B, x, y, idx


def call(fn):
    try:
        with warnings.catch_warnings():
            warnings.simplefilter("ignore")
            r = fn()
        if isinstance(r, tuple):
            return ("ok", tuple(np.asarray(a, dtype=float) for a in r))
        return ("ok", (np.asarray(r, dtype=float),))
    except (KeyboardInterrupt, SystemExit):
        raise
    except BaseException as exc:
        return ("raised", type(exc).__name__)


def same(a, b, rtol=1e-12):
    if a[0] != b[0]:
        return False
    if a[0] == "raised":
        return a[1] == b[1]
    if len(a[1]) != len(b[1]):
        return False
    for p, q in zip(a[1], b[1]):
        if p.shape != q.shape:
            return False
        if not np.allclose(p, q, rtol=rtol, atol=0, equal_nan=True):
            return False
    return True


def rat_ok(obs, rat, fn=lambda v: v):
    if rat[1] == 0:
        return isinstance(obs, float) and math.isnan(obs)
    want = fn(rat[0] / rat[1])
    return abs(obs - want) <= 1e-12 * max(1.0, abs(want))


def _replay(job):
    import dclab
    from dclab import statistics
    case, root = job
    out = []
    A, B, x, y, idx = build(case)
    tag = "enabled" if case["enabled"] else "disabled"
    # --- exact statistics
    with warnings.catch_warnings():
        warnings.simplefilter("ignore")
        hdr, vals = statistics.get_statistics(
            A, methods=["Mean", "Median", "SD", "Events", "%-gated",
                        "Flow rate"], features=["deform"])
    got = dict(zip([h.split(" ")[0] for h in hdr], [float(v) for v in vals]))
    for name, rat, fn in (("Mean", case["mean"], lambda v: v),
                          ("Median", case["median"], lambda v: v),
                          ("SD", case["variance"], math.sqrt),
                          ("%-gated", case["pgated"], lambda v: v)):
        if not rat_ok(got[name], rat, fn):
            out.append(("statistic %s differs from its definition on the "
                        "selected finite values (filters %s)" % (name, tag),
                        "%s: got %r want %s" % (case, got[name], rat)))
    if int(got["Events"]) != case["events"]:
        out.append(("statistic Events wrong (filters %s)" % tag, str(case)))
    if B is None:
        return dict(case, checks=5), out
    # --- non-interference: filtered dataset vs dataset of the used events
    entries = []
    for ft in ("deform", "area_um"):
        entries.append(("statistics Mean/Median/Mode/SD of " + ft,
                        lambda d, ft=ft: np.array(statistics.get_statistics(
                            d, methods=["Mean", "Median", "Mode", "SD"],
                            features=[ft])[1], dtype=float)))
    for kt in KDES:
        for xs, ys in (("linear", "linear"), ("log", "linear"),
                       ("log", "log")):
            entries.append(("kde scatter %s %s/%s" % (kt, xs, ys),
                            lambda d, kt=kt, xs=xs, ys=ys: d.get_kde_scatter(
                                xax="area_um", yax="deform", kde_type=kt,
                                xscale=xs, yscale=ys)))
        entries.append(("kde scatter %s at given positions" % kt,
                        lambda d, kt=kt: d.get_kde_scatter(
                            xax="area_um", yax="deform", kde_type=kt,
                            positions=(np.array([20., 40., 61.]),
                                       np.array([2., 3.5, 5.])))))
        for xs in ("linear", "log"):
            entries.append(("kde contour %s %s" % (kt, xs),
                            lambda d, kt=kt, xs=xs: d.get_kde_contour(
                                xax="area_um", yax="deform", kde_type=kt,
                                xscale=xs, xacc=3.0, yacc=0.7)))
    entries.append(("downsampled scatter",
                    lambda d: d.get_downsampled_scatter(
                        xax="area_um", yax="deform", downsample=3)))

    def tsv(d):
        import os
        p = root / ("t%d.tsv" % os.getpid())
        d.export.tsv(p, features=["deform", "area_um"], filtered=True,
                     override=True)
        with open(p, encoding="utf-8-sig") as fd:
            rows = [ln for ln in fd if not ln.startswith("#") and ln.strip()]
        return np.array([[float(v) for v in ln.split("\t")] for ln in rows])
    entries.append(("tsv export", tsv))
    n = 0
    for name, fn in entries:
        ra, rb = call(lambda: fn(A)), call(lambda: fn(B))
        n += 1
        if not same(ra, rb):
            out.append(("excluded events influence the result of %s "
                        "(filters %s)" % (name.split(" at ")[0], tag),
                        "%s: filtered %s vs selected-only %s" % (
                            {k: case[k] for k in ("inst", "mask", "poison")},
                            str(ra)[:120], str(rb)[:120])))
    # --- the mask that comes with downsampled scatter data identifies the
    # returned events within the whole dataset: nothing excluded is marked,
    # on the selected events it is the mask of the selected-only dataset
    for dsz in (3, 0):
        ra = call(lambda: A.get_downsampled_scatter(
            xax="area_um", yax="deform", downsample=dsz, ret_mask=True))
        rb = call(lambda: B.get_downsampled_scatter(
            xax="area_um", yax="deform", downsample=dsz, ret_mask=True))
        n += 1
        if ra[0] != "ok" or rb[0] != "ok":
            if ra[0] != rb[0]:
                out.append(("excluded events influence the result of "
                            "downsampled scatter with mask (filters %s)"
                            % tag, "%s vs %s" % (ra, rb)))
            continue
        ma, mb = ra[1][2].astype(bool), rb[1][2].astype(bool)
        sel = np.asarray(A.filter.all, dtype=bool)
        ok = len(ma) == len(sel) and not ma[~sel].any() \
            and len(mb) == int(sel.sum()) and np.array_equal(ma[sel], mb)
        if ok:
            ok = np.allclose(np.asarray(A["area_um"])[ma], ra[1][0],
                             rtol=1e-12, atol=0, equal_nan=True)
        if not ok:
            out.append(("mask of downsampled scatter data does not identify "
                        "the returned events in the dataset (filters %s)"
                        % tag, "downsample=%d mask %s selected %s" % (
                            dsz, ma.astype(int).tolist(),
                            sel.astype(int).tolist())))
    # --- a density estimate is a function of the events and the position:
    # what is reported for a position does not depend on how many other
    # positions are asked for in the same call
    px, py = np.array([20., 40., 61.]), np.array([2., 3.5, 5.])
    for kt in KDES:
        full = call(lambda: A.get_kde_scatter(
            xax="area_um", yax="deform", kde_type=kt, positions=(px, py)))
        for k in (1, 2):
            part = call(lambda: A.get_kde_scatter(
                xax="area_um", yax="deform", kde_type=kt,
                positions=(px[:k], py[:k])))
            n += 1
            if full[0] != "ok":
                continue
            if part[0] != "ok" or not np.allclose(
                    full[1][0][:k], part[1][0], rtol=1e-9, atol=0,
                    equal_nan=True):
                out.append(("density estimate %s at a position depends on "
                            "the number of positions asked for (%d of 3)"
                            % (kt, k), "%s vs %s" % (str(full[1])[:80],
                                                     str(part[1])[:80])))
    # --- bin widths / default accuracies are functions of the finite
    # selected values: invalid values among them change nothing
    from dclab import kde_methods as km
    for nm, arr in (("deform", x[idx]), ("area_um", y[idx])):
        arr = np.asarray(arr, dtype=float)
        fin = arr[np.isfinite(arr)]
        if len(fin) < 3 or len(fin) == len(arr) or np.ptp(fin) == 0:
            continue
        for fname in ("bin_width_doane", "bin_width_percentile"):
            fn = getattr(km, fname)
            ra, rb = call(lambda: fn(arr)), call(lambda: fn(fin))
            n += 1
            if not same(ra, rb, rtol=1e-12):
                out.append(("invalid values among the selected events "
                            "influence %s" % fname,
                            "%s: %s vs %s" % (nm, str(ra)[:60], str(rb)[:60])))
        ra = call(lambda: dclab.rtdc_dataset.RTDCBase.get_kde_spacing(arr))
        rb = call(lambda: dclab.rtdc_dataset.RTDCBase.get_kde_spacing(fin))
        n += 1
        if not same(ra, rb, rtol=1e-12):
            out.append(("invalid values among the selected events influence "
                        "the default kde spacing", nm))
    # --- density estimates use only the events that are valid in both
    # features: compare with a dataset that does not contain the others
    for xs in ("linear", "log"):
        xv, yv = x[idx], y[idx]
        good = np.isfinite(xv) & np.isfinite(yv)
        if xs == "log":
            good &= (xv > 0) & (yv > 0)
        if good.all() or good.sum() < 2:
            continue
        V = dclab.new_dataset({"deform": xv[good], "area_um": yv[good]})
        V.apply_filter()
        for kt in KDES[:3]:
            ra = call(lambda: B.get_kde_contour(
                xax="area_um", yax="deform", kde_type=kt, xscale=xs,
                yscale=xs, xacc=3.0 if xs == "linear" else 0.2,
                yacc=0.7 if xs == "linear" else 0.2))
            rv = call(lambda: V.get_kde_contour(
                xax="area_um", yax="deform", kde_type=kt, xscale=xs,
                yscale=xs, xacc=3.0 if xs == "linear" else 0.2,
                yacc=0.7 if xs == "linear" else 0.2))
            n += 1
            if not same(ra, rv, rtol=1e-10):
                out.append(("selected events with invalid values influence "
                            "the kde contour (%s scale)" % xs,
                            "%s %s: %s vs %s" % (
                                {k: case[k] for k in ("inst", "mask")}, kt,
                                str(ra)[:100], str(rv)[:100])))
            sa = call(lambda: B.get_kde_scatter(
                xax="area_um", yax="deform", kde_type=kt, xscale=xs,
                yscale=xs))
            sv = call(lambda: V.get_kde_scatter(
                xax="area_um", yax="deform", kde_type=kt, xscale=xs,
                yscale=xs))
            n += 1
            if sa[0] == "ok" and sv[0] == "ok":
                sa = ("ok", (sa[1][0][good],))
            if not same(sa, sv, rtol=1e-10):
                out.append(("selected events with invalid values influence "
                            "the kde scatter (%s scale)" % xs,
                            "%s %s" % ({k: case[k] for k in ("inst",
                                                             "mask")}, kt)))
    return dict(case, checks=n + 5), out


def record(rng):
    """quantile law + non-interference on a larger random dataset"""
    import dclab
    import scipy.interpolate as spint
    from dclab import kde_contours
    n = rng.choice([40, 120, 400])
    rs = np.random.RandomState(rng.randrange(2**31))
    x = rs.normal(100, 20, n)
    y = rs.normal(0.05, 0.01, n) + (x - 100) * 1e-4
    if rng.random() < 0.5:
        x[rs.choice(n, 3, replace=False)] = np.nan
    # logarithmic x axis with non-positive (finite) values: those events lie
    # outside the density grid and count as events with density zero
    xscale = rng.choice(["linear", "log"])
    if xscale == "log":
        neg = rs.choice(n, max(2, n // 9), replace=False)
        x[neg] = -np.abs(x[neg]) * rs.choice([0.0, 1.0], len(neg))
    m = rs.rand(n) < rng.choice([0.3, 0.7, 1.0])
    if m.sum() < 10:
        m[:10] = True
    ds = dclab.new_dataset({"area_um": x, "deform": y})
    ds.filter.manual[:] = m
    ds.apply_filter()
    sub = dclab.new_dataset({"area_um": x[m], "deform": y[m]})
    sub.apply_filter()
    kt = rng.choice(["histogram", "gauss"])
    qn, qd = rng.choice([(1, 2), (1, 10), (9, 10), (1, 4), (19, 20)])
    rec = {"n": 0, "qn": qn, "qd": qd, "below": 0, "atmost": 0,
           "raised": False, "noninterference": True, "kde": kt,
           "events": int(n), "selected": int(m.sum()), "xscale": xscale}
    try:
        with warnings.catch_warnings():
            warnings.simplefilter("ignore")
            xm, ym, dens = ds.get_kde_contour(xax="area_um", yax="deform",
                                              kde_type=kt, xscale=xscale)
            xm2, ym2, dens2 = sub.get_kde_contour(xax="area_um",
                                                  yax="deform", kde_type=kt,
                                                  xscale=xscale)
            rec["noninterference"] = bool(
                np.allclose(dens, dens2, rtol=1e-10, atol=0, equal_nan=True)
                and np.array_equal(xm, xm2))
            xp, yp = x[m], y[m]
            level = kde_contours.get_quantile_levels(
                density=dens, x=xm, y=ym, xp=xp, yp=yp, q=qn / qd,
                normalize=False)
            good = np.isfinite(xp) & np.isfinite(yp)
            dp = spint.interpn((xm[:, 0], ym[0, :]), dens,
                               (xp[good], yp[good]), method="linear",
                               bounds_error=False, fill_value=0)
        rec["n"] = int(good.sum())
        eps = 1e-12 * max(1.0, abs(float(level)))
        rec["below"] = int(np.sum(dp < level - eps))
        rec["atmost"] = int(np.sum(dp <= level + eps))
    except (KeyboardInterrupt, SystemExit):
        raise
    except BaseException as exc:
        rec["raised"] = True
        rec["exc"] = type(exc).__name__
    return rec


def dtype_cases():
    """a density estimate is a function of the values of the events: the
    same values held as 64-bit integers, 32-bit floats or 64-bit floats
    give the same estimate (every estimator, with and without positions)"""
    import dclab
    out, n = [], 0
    rs = np.random.RandomState(12)
    frame = np.sort(rs.randint(100, 400, 60)).astype(np.int64)
    defo = rs.uniform(0.01, 0.2, 60)
    px = np.array([150, 220, 310], dtype=np.int64)
    py = np.array([0.05, 0.1, 0.15])
    with warnings.catch_warnings():
        warnings.simplefilter("ignore")
        ref = dclab.new_dataset({"frame": frame.astype(np.float64),
                                 "deform": defo})
        for name, dt in (("int64", np.int64), ("float32", np.float32)):
            alt = dclab.new_dataset({"frame": frame.astype(dt),
                                     "deform": defo})
            for kt in KDES:
                for pos in (None, (px.astype(dt), py)):
                    kw = dict(xax="frame", yax="deform", kde_type=kt)
                    posr = None if pos is None else (
                        px.astype(np.float64), py)
                    a = call(lambda: ref.get_kde_scatter(positions=posr,
                                                         **kw))
                    b = call(lambda: alt.get_kde_scatter(positions=pos,
                                                         **kw))
                    n += 1
                    rt = 1e-5 if name == "float32" else 1e-9
                    if a[0] != b[0] or (a[0] == "ok" and not np.allclose(
                            a[1][0], np.asarray(b[1][0], dtype=float),
                            rtol=rt, atol=0, equal_nan=True)):
                        out.append(("density estimate %s depends on the "
                                    "data type of the x data (%s)" % (
                                        kt, name), "%s vs %s" % (
                                            str(a[1])[:80], str(b[1])[:80])))
    return n, out


def main(tier, seed, replay=None):
    import_dclab()
    ev = evidence.Evidence(PID, tier, seed)
    rep = findings.Reporter(PID, ev)
    ev.rule = ("StatsSpec enumerates (data instance with NaN/inf/ties, every "
               "mask of 6 events, filters enabled/disabled, excluded events "
               "poisoned or not) with exact rational Mean/Median/Variance/"
               "Events/%-gated; each case builds a filtered dataset and a "
               "dataset of the used events only and compares every entry "
               "point (statistics, 4 KDE types x linear/log scatter, explicit "
               "positions, contours, downsampling, tsv) between the two and "
               "the statistics with the rationals. Larger random datasets are "
               "recorded (non-interference of contour densities, counts of "
               "events below the quantile level) and judged by TLC "
               "(StatsTrace). non-trivial = some but not all events used.")
    ev.assumptions = ["that each density estimator IS the reference "
                      "estimator (spline of a 2D histogram, Gaussian, product "
                      "kernel) is transcendental numerics outside the TLA+ "
                      "oracle (DESIGN section 7)"]
    q = tier == "quick"
    res = tlc.run("MC_Stats", CFG, workers=4, timeout=900)
    ev.add_tlc("MC_Stats cases with exact statistics", res)
    seen, cases = set(), []
    for c in res.tagged("H"):
        if str(c) not in seen:
            seen.add(str(c))
            cases.append(c)
    root = tlc.scratch_dir("vp_c12_")
    try:
        for case, viols in par.pmap(_replay, [(c, root) for c in cases],
                                    chunk=10):
            ev.traces += 1
            ev.case({k: case[k] for k in ("inst", "mask", "enabled",
                                          "poison", "checks")},
                    nontrivial=0 < len(case["used"]) < 6)
            for sig, detail in viols:
                rep.violation(sig, detail, case, size=len(case["used"]))
    finally:
        shutil.rmtree(root, ignore_errors=True)
    rng = random.Random(seed * 977 + 12)
    recs = [record(rng) for _ in range(60 if q else 600)]
    res2, okset, rej = tracecheck.validate("StatsTrace", TRACE, recs,
                                           workers=4)
    ev.add_tlc("StatsTrace (%d recorded datasets)" % len(recs), res2)
    ev.traces += len(okset)
    ev.extra["recorded"] = len(recs)
    ev.extra["recorded_accepted"] = len(okset)
    for tid, (_, why) in sorted(rej.items()):
        r = recs[tid - 1]
        rep.violation("quantile level: %s (%s kde, %s x scale)" % (
            why if why != "raised" else "raises " + str(r.get("exc")),
            r["kde"], r["xscale"]), str(r), r, size=1000)
    nd, viols = dtype_cases()
    ev.traces += nd
    ev.extra["dtype_cases"] = nd
    for sig, detail in viols:
        rep.violation(sig, detail, {}, size=60)
    return rep.finish()
