"""Fork-based parallel map over chunks of work items (16 cores)."""
import multiprocessing as mp
import os

_FN = None


def _call(chunk):
    return [_FN(x) for x in chunk]


def pmap(fn, items, procs=None, chunk=64):
    """ordered list of fn(x); fn and items need not be picklable-by-name
    because workers are forked after _FN is set."""
    global _FN
    items = list(items)
    procs = procs or min(14, os.cpu_count() or 2)
    if len(items) <= chunk or procs <= 1:
        return [fn(x) for x in items]
    _FN = fn
    chunks = [items[i:i + chunk] for i in range(0, len(items), chunk)]
    ctx = mp.get_context("fork")
    with ctx.Pool(procs) as pool:
        out = []
        for part in pool.imap(_call, chunks):
            out.extend(part)
    return out
