"""Fork-based parallel map over chunks of work items (16 cores)."""
import multiprocessing as mp
import os

_FN = None


def _call(chunk):
    out = []
    for x in chunk:
        try:
            out.append(_FN(x))
        except (KeyboardInterrupt, SystemExit):
            raise
        except BaseException as exc:
            # exceptions derived from BaseException would kill the worker
            # and hang the pool
            raise RuntimeError("worker failed: %r" % (exc,)) from None
    return out


def pmap(fn, items, procs=None, chunk=64):
    """ordered list of fn(x); fn and items need not be picklable-by-name
    because workers are forked after _FN is set."""
    global _FN
    items = list(items)
    procs = procs or min(14, os.cpu_count() or 2)
    if len(items) <= chunk or procs <= 1:
        return [fn(x) for x in items]
    _FN = fn
    chunks = [items[i:i + chunk] for i in range(0, len(items), chunk)]
    ctx = mp.get_context("fork")
    with ctx.Pool(procs) as pool:
        out = []
        for part in pool.imap(_call, chunks):
            out.extend(part)
    return out


def sample(items, k, seed=0):
    """keep about 1/k of the items, chosen by a stable hash of their content
    (TLC's output order is correlated with the values, so strided sampling
    can silently drop a whole class of cases)"""
    import hashlib
    import json
    if k <= 1:
        return list(items)
    out = []
    for it in items:
        h = hashlib.blake2b(json.dumps(it, sort_keys=True, default=str)
                            .encode(), digest_size=4).digest()
        if (int.from_bytes(h, "big") + seed) % k == 0:
            out.append(it)
    return out
