"""Code -> spec: recorded traces are validated by TLC against a trace
specification.  The trace spec prints <<"OK", {tid}>> for a fully consumed
trace and <<"REJ", {tid, line, why}>> where a recorded step is not a step of
the specification."""
import json
import os

from . import tlc


def validate(module, cfg, traces, *, workers=8, timeout=900, env=None):
    """traces: list of JSON-able trace objects (1-based tid = position).
    returns (result, accepted:set, rejected:dict tid->(line, why))"""
    sc = tlc.scratch_dir("vp_trace_")
    try:
        path = sc / "traces.json"
        path.write_text(json.dumps(traces))
        e = {"TRACE_FILE": str(path)}
        e.update(env or {})
        res = tlc.run(module, cfg, workers=workers, timeout=timeout, env=e)
    finally:
        import shutil
        shutil.rmtree(sc, ignore_errors=True)
    ok = {d["tid"] for d in res.tagged("OK")}
    rej = {}
    for d in res.tagged("REJ"):
        if d["tid"] in ok:
            continue
        cur = rej.get(d["tid"])
        if cur is None or d["line"] > cur[0]:
            rej[d["tid"]] = (d["line"], d["why"])
    for t in range(1, len(traces) + 1):
        if t not in ok and t not in rej:
            rej[t] = (0, "no-verdict")
    return res, ok, rej
