"""Evidence writer (schema: /root/.vp/EVIDENCE.schema.json)."""
import hashlib
import json
import pathlib
import time

VERIF = pathlib.Path(__file__).resolve().parent.parent


class Evidence:
    def __init__(self, pid, tier, seed, level="model_checking", subdir=None):
        self.pid, self.tier, self.seed, self.level = pid, tier, seed, level
        self.subdir = subdir     # checks beyond the listed properties
        self.t0 = time.time()
        self.states = 0
        self.transitions = 0
        self.traces = 0          # traces/histories validated against impl
        self.evaluations = 0
        self._distinct = set()
        self.samples = []
        self.violations = 0
        self.extra = {}
        self.assumptions = []
        self.rule = ""
        self.exhaustive = None
        self.tlc_runs = []

    def add_tlc(self, name, res):
        self.states += res.distinct
        self.transitions += res.generated
        self.tlc_runs.append({"model": name, "distinct": res.distinct,
                              "generated": res.generated,
                              "depth": res.depth,
                              "wall_s": round(res.wall, 2),
                              "coverage": {k: list(v) for k, v in
                                           sorted(res.coverage.items())}})

    def case(self, obj, nontrivial=True, sample_every=None):
        """Count one evaluated case; obj must be JSON-serialisable."""
        self.evaluations += 1
        if nontrivial:
            h = hashlib.blake2b(json.dumps(obj, sort_keys=True, default=str)
                                .encode(), digest_size=10).digest()
            self._distinct.add(h)
        if len(self.samples) < 5 and (nontrivial or self.evaluations > 50):
            self.samples.append(obj)

    def write(self):
        cov = {"states": max(self.states, 0),
               "transitions": max(self.transitions, 0),
               "traces_validated_against_impl": self.traces,
               "evaluations": self.evaluations,
               "distinct_nontrivial": len(self._distinct),
               "rule": self.rule,
               "samples": self.samples[:5] or ["<no case evaluated>"],
               "tlc_runs": self.tlc_runs}
        if self.exhaustive is not None:
            cov["exhaustive"] = bool(self.exhaustive)
        cov.update(self.extra)
        doc = {"property_id": self.pid, "tier": self.tier,
               "seed": int(self.seed), "level": self.level,
               "coverage": cov, "assumptions": self.assumptions,
               "wall_s": round(time.time() - self.t0, 2),
               "violations": self.violations}
        out = VERIF / "evidence"
        if self.subdir:
            out = out / self.subdir
        out.mkdir(parents=True, exist_ok=True)
        (out / (self.pid + ".json")).write_text(
            json.dumps(doc, indent=1, default=str) + "\n")
        return doc
