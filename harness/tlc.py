"""Run TLC on modules under /verif/specs and parse what it reports.

All modules under specs/ are copied flat into a scratch directory (module
names are unique), so EXTENDS/INSTANCE work across sub-directories.  TLC is
started with a minimal environment, a scratch metadir and an outer timeout.
"""
import json
import os
import pathlib
import re
import shutil
import subprocess
import tempfile
import time

VERIF = pathlib.Path(__file__).resolve().parent.parent
SPECS = VERIF / "specs"
JAR = "/opt/veriftools/tla/tla2tools.jar"
CP = JAR + ":/opt/veriftools/tla/CommunityModules-deps.jar"


class TLCError(RuntimeError):
    """Machinery failure (parse error, crash, timeout) - never a verdict."""


class TLCResult:
    def __init__(self):
        self.generated = 0
        self.distinct = 0
        self.depth = 0
        self.ok = False            # "No error has been found"
        self.violated = None       # name of violated invariant/property
        self.printed = []          # values printed with PrintT(<<"TAG", ...>>)
        self.stdout = ""
        self.wall = 0.0
        self.coverage = {}         # action name -> (distinct, total)
        self.cex = ""              # counterexample text if any

    def tagged(self, tag):
        """JSON payloads printed as PrintT(<<tag, ToJson(v)>>)."""
        return list(self.iter_tagged(tag))

    def iter_tagged(self, tag, consume=False):
        """generator version of `tagged`; consume=True releases the raw
        lines while iterating (very large enumerations)"""
        pre = '<<"%s", ' % tag
        lines = self.printed
        if consume:
            self.printed = []
            self.stdout = ""
            lines.reverse()
            while lines:
                line = lines.pop()
                if line.startswith(pre) and line.endswith(">>"):
                    yield json.loads(json.loads(line[len(pre):-2]))
            return
        for line in lines:
            if line.startswith(pre) and line.endswith(">>"):
                yield json.loads(json.loads(line[len(pre):-2]))


def scratch_dir(prefix="vp_"):
    base = "/dev/shm" if os.path.isdir("/dev/shm") else tempfile.gettempdir()
    return pathlib.Path(tempfile.mkdtemp(prefix=prefix, dir=base))


def _stage(scratch):
    for p in SPECS.rglob("*.tla"):
        shutil.copy(p, scratch / p.name)


_RE_STATES = re.compile(
    r"^(\d+) states generated, (\d+) distinct states found", re.M)
_RE_DEPTH = re.compile(r"depth of the complete state graph search is (\d+)")
_RE_COV = re.compile(
    r"^<(\w+) line \d+, col \d+ to line \d+, col \d+ of module (\w+)>: "
    r"(\d+):(\d+)", re.M)
_RE_INV = re.compile(r"Error: Invariant (\w+) is violated")
_RE_PROP = re.compile(r"Error: Action property (.+?) is violated|"
                      r"Error: Temporal properties were violated")


def run(module, cfg, *, workers=16, timeout=900, simulate=None, depth=None,
        seed=None, env=None, coverage=False, extra=(), keep=False,
        extra_files=None, java_opts=()):
    """Run TLC on `module` (name without .tla) with the cfg text `cfg`.

    simulate: None for exhaustive BFS, or "num=N" style string for -simulate.
    Returns TLCResult.  Raises TLCError on machinery failure.
    """
    scratch = scratch_dir("vp_tlc_")
    try:
        _stage(scratch)
        for name, text in (extra_files or {}).items():
            (scratch / name).write_text(text)
        (scratch / (module + ".cfg")).write_text(cfg)
        cmd = ["java", "-XX:+UseParallelGC", "-Xmx12g",
               "-Djava.io.tmpdir=" + str(scratch), *java_opts,
               "-cp", CP, "tlc2.TLC",
               "-workers", str(workers), "-metadir", str(scratch / "md"),
               "-noGenerateSpecTE", "-config", module + ".cfg"]
        if simulate is not None:
            cmd += ["-simulate", simulate]
        if depth is not None:
            cmd += ["-depth", str(depth)]
        if seed is not None:
            cmd += ["-seed", str(seed)]
        if coverage:
            cmd += ["-coverage", "1"]
        cmd += list(extra)
        cmd += [module + ".tla"]
        e = {"PATH": os.environ.get("PATH", "/usr/bin:/bin"),
             "HOME": str(scratch), "LANG": "C.UTF-8"}
        e.update(env or {})
        t0 = time.time()
        try:
            cp = subprocess.run(cmd, cwd=scratch, env=e, text=True,
                                capture_output=True, timeout=timeout)
        except subprocess.TimeoutExpired as exc:
            raise TLCError("TLC timeout after %ss on %s" % (timeout, module)) \
                from exc
        res = TLCResult()
        res.wall = time.time() - t0
        res.stdout = cp.stdout
        res.printed = [ln for ln in cp.stdout.splitlines()
                       if ln.startswith("<<\"")]
        ms = _RE_STATES.findall(cp.stdout)
        if ms:
            res.generated, res.distinct = int(ms[-1][0]), int(ms[-1][1])
        md = _RE_DEPTH.search(cp.stdout)
        if md:
            res.depth = int(md.group(1))
        for m in _RE_COV.finditer(cp.stdout):
            res.coverage[m.group(1)] = (int(m.group(3)), int(m.group(4)))
        res.ok = "No error has been found" in cp.stdout or (
            simulate is not None and "Error:" not in cp.stdout
            and cp.returncode == 0)
        mi = _RE_INV.search(cp.stdout)
        if mi:
            res.violated = mi.group(1)
        elif _RE_PROP.search(cp.stdout):
            mp = _RE_PROP.search(cp.stdout)
            res.violated = mp.group(1) or "temporal"
        if res.violated or "Error: Deadlock reached" in cp.stdout:
            i = cp.stdout.find("Error:")
            res.cex = cp.stdout[i:i + 6000]
            if not res.violated:
                res.violated = "Deadlock"
        if not res.ok and not res.violated:
            txt = "\n".join(
                ln for ln in cp.stdout.splitlines()
                if not ln.startswith(("Parsing file", "Semantic processing",
                                      "Linting of", "Computed ", '<<"')))
            seen, ded = set(), []
            for ln in txt.splitlines():
                if ln.strip() and ln in seen:
                    continue
                seen.add(ln)
                ded.append(ln)
            txt = "\n".join(ded)
            raise TLCError("TLC failed on %s (rc=%s):\n%s\n%s" % (
                module, cp.returncode, txt[-3000:], cp.stderr[-1000:]))
        return res
    finally:
        if not keep:
            shutil.rmtree(scratch, ignore_errors=True)


def sany_all():
    """Parse every module under specs/ (used by setup)."""
    scratch = scratch_dir("vp_sany_")
    bad = []
    try:
        _stage(scratch)
        for p in sorted(scratch.glob("*.tla")):
            cp = subprocess.run(
                ["java", "-cp", CP, "tla2sany.SANY", p.name], cwd=scratch,
                text=True, capture_output=True)
            if cp.returncode != 0 or "Semantic errors" in cp.stdout \
                    or "*** Errors" in cp.stdout or "Fatal" in cp.stdout:
                bad.append((p.name, cp.stdout[-1500:]))
    finally:
        shutil.rmtree(scratch, ignore_errors=True)
    return bad
