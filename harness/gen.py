"""Event tokens <-> concrete feature data (DESIGN section 3.3).

An event of a measurement is an integer id e >= 1.  Every feature value of
event e is an injective, deterministic function of (feature, e); `decode_*`
maps stored data back to ids and fails loudly (returns None) on anything that
is not an exact encoding, so "the file contains events <3,5,6> in order,
unchanged" is a statement about id sequences while the comparison is
bit-exact.
"""
import numpy as np

IMG_SHAPE = (12, 16)
TRACE_LEN = 20
SCALARS = ["deform", "area_um", "bright_avg", "pos_x", "time", "frame",
           "fl1_max", "index_online", "temp", "userdef1", "area_cvx",
           "size_x", "size_y", "area_msd"]
_K = {f: i + 1 for i, f in enumerate(SCALARS)}
META = {
    "experiment": {"sample": "verif", "run index": 1, "date": "2024-02-03",
                   "time": "12:00:00", "run identifier": "verif-run-1"},
    "imaging": {"pixel size": 0.34, "frame rate": 2000.0,
                "flash device": "LED", "flash duration": 2.0,
                "roi size x": IMG_SHAPE[1], "roi size y": IMG_SHAPE[0],
                "roi position x": 0, "roi position y": 0},
    "setup": {"channel width": 20.0, "flow rate": 0.04,
              "flow rate sample": 0.01, "flow rate sheath": 0.03,
              "chip region": "channel", "medium": "CellCarrier",
              "module composition": "Cell_Flow_2, Fluor",
              "identifier": "verif-setup", "software version": "verif 1.0"},
    "fluorescence": {"bit depth": 16, "channel count": 1,
                     "channels installed": 1, "laser count": 1,
                     "lasers installed": 1, "laser 1 lambda": 488.0,
                     "laser 1 power": 10.0, "sample rate": 312500,
                     "samples per event": TRACE_LEN, "signal max": 1.0,
                     "signal min": -1.0, "trace median": 0,
                     "channel 1 name": "FL1"},
}


def scalar(feat, ids):
    ids = np.asarray(ids, dtype=np.int64)
    k = _K.get(feat, 17)
    if feat == "index_online":
        return (ids * 2 + 5).astype(np.int64)
    if feat == "frame":
        return (ids * 3 + 100).astype(np.uint64)
    if feat == "fl1_max":
        return (ids * 3 + k).astype(np.uint32)
    if feat == "time":
        return ids * 0.0015 + 0.25
    if feat == "deform":
        return 0.005 + ids / 4096.0 + k / 65536.0
    return ids * 10.0 + k


def decode_scalar(feat, values):
    """ids for stored scalar values (list of int) or None if any value is not
    an exact encoding"""
    values = np.asarray(values)
    if values.size == 0:
        return []
    k = _K.get(feat, 17)
    v = values.astype(np.float64)
    if feat == "index_online":
        ids = (v - 5) / 2
    elif feat == "frame":
        ids = (v - 100) / 3
    elif feat == "fl1_max":
        ids = (v - k) / 3
    elif feat == "time":
        ids = np.round((v - 0.25) / 0.0015)
    elif feat == "deform":
        ids = (v - 0.005 - k / 65536.0) * 4096.0
    else:
        ids = (v - k) / 10.0
    if not np.all(np.isfinite(ids)):
        return None
    r = np.round(ids).astype(np.int64)
    back = scalar(feat, r)
    if not np.array_equal(np.asarray(back, dtype=np.float64), v):
        return None
    return [int(x) for x in r]


def image(ids, feat="image"):
    ids = np.asarray(ids, dtype=np.int64)
    h, w = IMG_SHAPE
    rr, cc = np.meshgrid(np.arange(h), np.arange(w), indexing="ij")
    off = 0 if feat == "image" else 41
    out = np.empty((len(ids), h, w), dtype=np.uint8)
    for i, e in enumerate(ids):
        out[i] = (e * 7 + rr * 13 + cc * 3 + off) % 251
        out[i, 0, 0] = e % 256
        out[i, 0, 1] = (e // 256) % 256
    return out


def decode_image(arr, feat="image"):
    arr = np.asarray(arr)
    if arr.ndim == 2:
        arr = arr[None]
    if arr.shape[0] == 0:
        return []
    if arr.dtype != np.uint8 or arr.shape[1:] != IMG_SHAPE:
        return None
    ids = arr[:, 0, 0].astype(np.int64) + 256 * arr[:, 0, 1].astype(np.int64)
    if not np.array_equal(image(ids, feat), arr):
        return None
    return [int(x) for x in ids]


def _mask_geom(e):
    hh = 3 + e % 4
    ww = 4 + (e // 4) % 5
    y0 = 1 + (e // 20) % 4
    x0 = 1 + (e // 80) % 6
    return y0, x0, hh, ww


def mask(ids):
    """filled rectangles: connected, hole-free, away from the border;
    injective for 1 <= e < 480"""
    ids = np.asarray(ids, dtype=np.int64)
    out = np.zeros((len(ids),) + IMG_SHAPE, dtype=bool)
    for i, e in enumerate(ids):
        y0, x0, hh, ww = _mask_geom(int(e))
        out[i, y0:y0 + hh, x0:x0 + ww] = True
    return out


def decode_mask(arr):
    arr = np.asarray(arr)
    if arr.ndim == 2:
        arr = arr[None]
    if arr.shape[0] == 0:
        return []
    if arr.shape[1:] != IMG_SHAPE:
        return None
    b = arr.astype(bool)
    if arr.dtype != bool and not np.all((arr == 0) | (arr == 255)
                                        | (arr == 1)):
        return None
    ids = []
    for m in b:
        ys, xs = np.nonzero(m)
        if ys.size == 0:
            return None
        y0, x0 = ys.min(), xs.min()
        hh, ww = ys.max() - y0 + 1, xs.max() - x0 + 1
        e = (hh - 3) + 4 * (ww - 4) + 20 * (y0 - 1) + 80 * (x0 - 1)
        if e < 0 or not np.array_equal(mask([e])[0], m):
            return None
        ids.append(int(e))
    return ids


def contour(ids):
    """ragged: event e has 4 + e % 6 points; first point encodes e"""
    out = []
    for e in ids:
        e = int(e)
        k = 4 + e % 6
        c = np.zeros((k, 2), dtype=np.int16)
        c[:, 0] = np.arange(k) + e % 200
        c[:, 1] = (np.arange(k) * 2 + e // 200) % 300
        c[0] = (e % 1000, e // 1000)
        out.append(c)
    return out


def decode_contour(conts):
    ids = []
    for c in conts:
        c = np.asarray(c)
        if c.ndim != 2 or c.shape[1] != 2 or c.shape[0] < 1:
            return None
        e = int(c[0, 0]) + 1000 * int(c[0, 1])
        if not np.array_equal(contour([e])[0], c):
            return None
        ids.append(e)
    return ids


def trace(ids, names=("fl1_raw", "fl1_median")):
    ids = np.asarray(ids, dtype=np.int64)
    out = {}
    for j, nm in enumerate(names):
        out[nm] = (np.arange(TRACE_LEN)[None, :] * (j + 1)
                   + ids[:, None] + 3 * j).astype(np.int16)
    return out


def decode_trace(arr, name):
    arr = np.asarray(arr)
    if arr.ndim == 1:
        arr = arr[None]
    if arr.shape[0] == 0:
        return []
    j = {"fl1_raw": 0, "fl1_median": 1}.get(name)
    if j is None or arr.shape[1] != TRACE_LEN:
        return None
    ids = arr[:, 0].astype(np.int64) - 3 * j
    if not np.array_equal(trace(ids, names=("fl1_raw", "fl1_median"))[name],
                          arr):
        return None
    return [int(x) for x in ids]


def encode(feat, ids):
    if feat in ("image", "image_bg"):
        return image(ids, feat)
    if feat == "mask":
        return mask(ids)
    if feat == "contour":
        return contour(ids)
    if feat == "trace":
        return trace(ids)
    return scalar(feat, ids)


def decode(feat, data):
    """stored data -> list of ids, or None if not an exact encoding"""
    if feat in ("image", "image_bg"):
        return decode_image(data, feat)
    if feat == "mask":
        return decode_mask(data)
    if feat == "contour":
        return decode_contour([data[i] for i in range(len(data))])
    return decode_scalar(feat, data)


def read_feature_ids(ds, feat):
    """decode a feature of an open dclab dataset to ids (None = corrupted);
    for 'trace' a dict name -> ids"""
    if feat == "trace":
        return {nm: decode_trace(ds["trace"][nm][:], nm)
                for nm in ds["trace"].keys()}
    if feat == "contour":
        return decode_contour([ds["contour"][i] for i in range(len(ds))])
    return decode(feat, ds[feat][:])


def write_rtdc(path, ids, feats=("deform", "area_um"), meta=None, logs=None,
               tables=None, mode="reset", run_id=None, partition=None):
    """generator of input files (uses dclab's writer; the writer itself is
    the subject of C01 only)"""
    import copy
    from dclab.rtdc_dataset import RTDCWriter
    m = copy.deepcopy(META)
    for sec, kv in (meta or {}).items():
        m.setdefault(sec, {}).update(kv)
    if run_id is not None:
        m["experiment"]["run identifier"] = run_id
    if "trace" not in feats and not any(
            f in feats for f in ("fl1_max", "fl2_max", "fl3_max")):
        m.pop("fluorescence", None)
    parts = partition or [len(ids)]
    with RTDCWriter(path, mode=mode) as hw:
        hw.store_metadata(m)
        pos = 0
        for n in parts:
            chunk = list(ids[pos:pos + n])
            pos += n
            if not chunk:
                continue
            for f in feats:
                hw.store_feature(f, encode(f, chunk))
        for name, lines in (logs or {}).items():
            hw.store_log(name, lines)
        for name, tab in (tables or {}).items():
            hw.store_table(name, tab)
    return path
