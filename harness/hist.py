"""Spec -> code replay: histories enumerated by TLC are replayed into the
implementation; a run is accepted iff its observations equal the expected
observations of SOME history of the specification with the same schedule
(the specification may be nondeterministic where the property is silent)."""
import json
from collections import defaultdict


def group_by_schedule(histories, sched_key, obs_key):
    """histories: list of lists of step records (dicts).

    sched_key(step) -> hashable describing action + arguments
    obs_key(step)   -> JSON-able expected observation of that step
    returns {schedule(tuple): [list of expected observation sequences]}
    """
    groups = defaultdict(list)
    for h in histories:
        sched = tuple(sched_key(s) for s in h)
        groups[sched].append([obs_key(s) for s in h])
    return groups


def first_divergence(observed, expected_seqs, match=None):
    """Index of the first step at which `observed` is matched by no expected
    sequence that matched all earlier steps; None if some sequence matches
    completely."""
    alive = list(expected_seqs)
    if match is None:
        match = same
    for i, o in enumerate(observed):
        nxt = [e for e in alive if i < len(e) and match(e[i], o)]
        if not nxt:
            return i, [e[i] for e in alive if i < len(e)]
        alive = nxt
    return None


def same(a, b):
    return json.dumps(a, sort_keys=True) == json.dumps(b, sort_keys=True)
