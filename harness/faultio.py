"""I/O interposer for C10: counts / records / sabotages the file operations of
a dclab command-line task (installed in a forked child only)."""
import os
import pathlib


class Injected(OSError):
    pass


class Interposer:
    def __init__(self, roles, fail_at=None, mode=None):
        """roles: {resolved path str: (role, j)} with role in IN/TEMP/OUT"""
        self.roles = roles
        self.fail_at, self.mode = fail_at, mode
        self.count = 0
        self.ops = []

    def role(self, path):
        try:
            p = str(pathlib.Path(path).resolve())
        except Exception:
            return None
        r = self.roles.get(p)
        if r is None and self.roles.get("__dir__") and \
                os.path.dirname(p) == self.roles["__dir__"] and \
                not p.endswith(".rtdc"):
            # any other file the task writes next to its outputs counts as a
            # temporary file (however it is named): of the output whose name
            # it starts with, else of the first
            base = os.path.basename(p)
            j = 1
            for jj, stem in self.roles.get("__stems__", []):
                if base.startswith(stem):
                    j = jj
                    break
            return ("TEMP", j)
        return r

    def tick(self, op, path):
        r = self.role(path)
        self.count += 1
        if self.fail_at is not None and self.count == self.fail_at:
            if self.mode == "kill":
                os._exit(77)
            raise Injected("injected I/O error at operation %d (%s)" % (
                self.count, op))
        if r is not None and r[0] != "IN":
            if r[0] == "OUT" and not op.startswith("unlink"):
                op = "write_out"      # nothing may ever write to OUT_j
            self.ops.append((op, r[0], r[1]))

    def install(self):
        import h5py
        ip = self
        F = h5py.File
        o_init, o_close = F.__init__, F.close

        def f_init(self_, name, mode="r", *a, **k):
            writing = mode not in ("r",)
            if writing and isinstance(name, (str, bytes, os.PathLike)):
                ip.tick("open" if mode in ("w", "w-", "x") else "reopen",
                        name)
            return o_init(self_, name, mode, *a, **k)

        def f_close(self_):
            try:
                fn, md = self_.filename, self_.mode
            except Exception:
                fn, md = None, "r"
            if fn and md != "r":
                ip.tick("close", fn)
            return o_close(self_)
        F.__init__, F.close = f_init, f_close

        def wrap(cls, meth, op):
            orig = getattr(cls, meth)

            def w(self_, *a, **k):
                try:
                    fn = self_.file.filename if hasattr(self_, "file") \
                        else self_._id.file.filename
                except Exception:
                    fn = None
                if fn:
                    ip.tick(op, fn)
                return orig(self_, *a, **k)
            setattr(cls, meth, w)
        G, D = h5py.Group, h5py.Dataset
        wrap(G, "create_dataset", "write")
        wrap(G, "create_group", "write")
        wrap(G, "__setitem__", "write")
        wrap(G, "__delitem__", "write")
        wrap(D, "__setitem__", "write")
        wrap(D, "resize", "write")
        A = h5py.AttributeManager
        o_aset, o_acreate = A.__setitem__, A.create

        def a_set(self_, name, value):
            try:
                fn = h5py.h5f.get_name(self_._id).decode()
            except Exception:
                fn = None
            if fn:
                ip.tick("write", fn)
            return o_aset(self_, name, value)
        A.__setitem__ = a_set
        o_copy = h5py.h5o.copy

        def h_copy(src_loc, src_name, dst_loc, dst_name, *a, **k):
            try:
                fn = h5py.h5f.get_name(dst_loc).decode()
            except Exception:
                fn = None
            if fn:
                ip.tick("write", fn)
            return o_copy(src_loc, src_name, dst_loc, dst_name, *a, **k)
        h5py.h5o.copy = h_copy
        P = pathlib.Path
        o_rename, o_unlink = P.rename, P.unlink

        def p_rename(self_, target):
            r = ip.role(self_)
            ip.count += 1
            if ip.fail_at is not None and ip.count == ip.fail_at:
                if ip.mode == "kill":
                    os._exit(77)
                raise Injected("injected I/O error at rename")
            rt = ip.role(target)
            if r and rt:
                ip.ops.append(("rename" if (r[0], rt[0]) == ("TEMP", "OUT")
                               and r[1] == rt[1] else "write_out",
                               rt[0], rt[1]))
            return o_rename(self_, target)

        def p_unlink(self_, *a, **k):
            r = ip.role(self_)
            if r and r[0] != "IN":
                ip.tick("unlink_" + ("out" if r[0] == "OUT" else "temp"),
                        self_)
            return o_unlink(self_, *a, **k)
        P.rename, P.unlink = p_rename, p_unlink
