"""Environment shims (harness side; no change to dclab's sources).

* the pinned tree reports an untagged version (0.0.post1+g...), files written
  by it are branded with it and RTDC_HDF5 then refuses to re-open them; the
  harness sets the module globals that are read at call time to a
  release-like string.  Nothing else is patched.
"""
import importlib
import os
import sys
import warnings

FAKE_VERSION = "0.62.0"


def import_dclab():
    os.environ.setdefault("PYTHONHASHSEED", "0")
    # registered commands always use /repo; VERIF_REPO lets the developer
    # point a check at a scratch worktree (seeded changes) without touching it
    repo = os.environ.get("VERIF_REPO", "/repo").rstrip("/")
    if repo not in sys.path:
        sys.path.insert(0, repo)
    warnings.filterwarnings("ignore")
    import dclab
    if not os.path.realpath(dclab.__file__).startswith(
            os.path.realpath(repo) + "/"):
        raise RuntimeError("dclab is not imported from /repo: %s"
                           % dclab.__file__)
    for name in ["dclab", "dclab._version", "dclab.rtdc_dataset.writer",
                 "dclab.rtdc_dataset.export", "dclab.cli.common",
                 "dclab.cli.task_compress", "dclab.cli.task_condense",
                 "dclab.cli.task_join", "dclab.cli.task_repack",
                 "dclab.cli.task_split", "dclab.cli.task_tdms2rtdc",
                 "dclab.rtdc_dataset.copier"]:
        try:
            mod = importlib.import_module(name)
        except Exception:
            continue
        if hasattr(mod, "version"):
            mod.version = FAKE_VERSION
        if hasattr(mod, "__version__"):
            mod.__version__ = FAKE_VERSION
        if hasattr(mod, "version_tuple"):
            mod.version_tuple = (0, 62, 0)
    return dclab
