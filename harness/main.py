"""Entry point: ./check <Cxx> [--tier quick|thorough] [--replay path]

exit 0  property held on everything explored (known findings are printed)
exit 1  VIOLATION property=<id> replay=<path>
exit 2  machinery failure (never a verdict)
"""
import argparse
import importlib
import os
import sys
import traceback


def main():
    ap = argparse.ArgumentParser()
    ap.add_argument("pid")
    ap.add_argument("--tier", default=os.environ.get("VERIF_TIER", "quick"),
                    choices=["quick", "thorough"])
    ap.add_argument("--replay", default=None)
    ap.add_argument("--seed", type=int,
                    default=int(os.environ.get("VERIF_SEED", "0") or 0))
    a = ap.parse_args()
    if a.pid == "setup":
        from . import tlc
        bad = tlc.sany_all()
        for name, out in bad:
            print("SANY FAILED:", name, "\n", out)
        return 2 if bad else 0
    try:
        mod = importlib.import_module("harness.checks." + a.pid.lower())
    except ModuleNotFoundError:
        print("no check for", a.pid)
        return 2
    try:
        return int(mod.main(tier=a.tier, seed=a.seed, replay=a.replay) or 0)
    except SystemExit:
        raise
    except Exception:
        traceback.print_exc()
        print("MACHINERY-FAILURE property=%s" % a.pid)
        return 2


if __name__ == "__main__":
    sys.exit(main())
