"""Verification harness for dclab: TLA+ specifications bound to the code."""
