"""Loop-back HTTP server with RFC 7233 single-range support (threaded)."""
import http.server
import os
import re
import socketserver
import threading


class RangeHandler(http.server.BaseHTTPRequestHandler):
    root = None
    protocol_version = "HTTP/1.1"

    def log_message(self, *a):
        pass

    def _file(self):
        p = os.path.join(self.root, self.path.lstrip("/").split("?")[0])
        return p if os.path.isfile(p) else None

    def do_HEAD(self):
        self._serve(head=True)

    def do_GET(self):
        self._serve(head=False)

    def _serve(self, head):
        p = self._file()
        if p is None:
            body = b"not found"
            self.send_response(404)
            self.send_header("Content-Length", str(len(body)))
            self.end_headers()
            if not head:
                self.wfile.write(body)
            return
        size = os.path.getsize(p)
        rng = self.headers.get("Range")
        m = re.match(r"^bytes=(\d+)-(\d*)$", rng.strip()) if rng else None
        etag = '"verif-%d-%d"' % (size, int(os.path.getmtime(p)))
        if m and not (m.group(2) and int(m.group(2)) < int(m.group(1))):
            first = int(m.group(1))
            last = int(m.group(2)) if m.group(2) else size - 1
            if first >= size:
                body = b"range not satisfiable"
                self.send_response(416)
                self.send_header("Content-Range", "bytes */%d" % size)
                self.send_header("Content-Length", str(len(body)))
                self.end_headers()
                if not head:
                    self.wfile.write(body)
                return
            last = min(last, size - 1)
            with open(p, "rb") as fd:
                fd.seek(first)
                body = fd.read(last - first + 1)
            self.send_response(206)
            self.send_header("Content-Range", "bytes %d-%d/%d" % (
                first, last, size))
        else:
            with open(p, "rb") as fd:
                body = fd.read()
            self.send_response(200)
        self.send_header("Content-Length", str(len(body)))
        self.send_header("Accept-Ranges", "bytes")
        self.send_header("ETag", etag)
        self.end_headers()
        if not head:
            self.wfile.write(body)


class Server:
    def __init__(self, root):
        handler = type("H", (RangeHandler,), {"root": str(root)})
        class Quiet(socketserver.ThreadingTCPServer):
            allow_reuse_address = True

            def handle_error(self, request, client_address):
                pass       # clients closing early are not interesting
        self.srv = Quiet(("127.0.0.1", 0), handler)
        self.srv.daemon_threads = True
        self.port = self.srv.server_address[1]
        self.thread = threading.Thread(target=self.srv.serve_forever,
                                       daemon=True)
        self.thread.start()

    def url(self, name):
        return "http://127.0.0.1:%d/%s" % (self.port, name)

    def close(self):
        self.srv.shutdown()
        self.srv.server_close()
