"""Known findings: committed list, matched by signature, never written at
run time.  A 'fixed' entry suppresses nothing."""
import json
import pathlib

VERIF = pathlib.Path(__file__).resolve().parent.parent
_FILE = VERIF / "KNOWN_FINDINGS.json"


def load(pid):
    if not _FILE.exists():
        return []
    doc = json.loads(_FILE.read_text())
    return [f for f in doc.get("findings", [])
            if f["property"] == pid and f.get("status") == "known"]


class Reporter:
    """Collects violations; decides exit status against the known list.

    A violation is described by a `signature` string chosen by the check from
    the abstract failing step (never the whole property); it is suppressed iff
    the committed file lists exactly that signature for the property.
    """

    def __init__(self, pid, evidence):
        self.pid = pid
        self.ev = evidence
        self.known = {f["signature"]: f for f in load(pid)}
        self.seen_known = {}
        self.new = {}

    def violation(self, signature, detail, replay_obj, size=0):
        """size: smaller = simpler example (kept per signature)"""
        if signature in self.known:
            self.seen_known.setdefault(signature, detail)
            return False
        cur = self.new.get(signature)
        if cur is None:
            self.new[signature] = [1, size, detail, replay_obj]
        else:
            cur[0] += 1
            if size < cur[1]:
                cur[1:] = [size, detail, replay_obj]
        return True

    def finish(self):
        for sig, detail in sorted(self.seen_known.items()):
            print("KNOWN-FINDING: property=%s %s -- %s" % (
                self.pid, sig, self.known[sig].get("what", detail)))
        self.ev.extra["known_findings_met"] = sorted(self.seen_known)
        self.ev.violations = len(self.new)
        rc = 0
        if self.new:
            rdir = VERIF / "evidence" / "replay"
            rdir.mkdir(parents=True, exist_ok=True)
            for old in rdir.glob(self.pid + "_*.json"):
                old.unlink()
            for i, (sig, (cnt, _, detail, obj)) in enumerate(
                    sorted(self.new.items())):
                p = rdir / ("%s_%d.json" % (self.pid, i))
                p.write_text(json.dumps(
                    {"property": self.pid, "signature": sig,
                     "detail": detail, "occurrences": cnt, "replay": obj},
                    indent=1, default=str))
                print("VIOLATION property=%s replay=%s" % (self.pid, p))
                print("  signature=[%s] occurrences=%d detail=%s" % (
                    sig, cnt, str(detail)[:600]))
            rc = 1
        self.ev.write()
        return rc
