---------------------------------- MODULE Rat ----------------------------------
(* Normalised rationals <<n, d>> with d > 0 (gcd-reduced).  NaN is <<0, 0>>;  *)
(* every operation with a NaN operand yields NaN.  Instances must keep all    *)
(* intermediate products below 2^31 (TLC integers).                           *)
EXTENDS Integers

RNaN == <<0, 0>>
IsNaN(r) == r[2] = 0

Abs(x) == IF x < 0 THEN -x ELSE x
RECURSIVE Gcd(_, _)
Gcd(a, b) == IF b = 0 THEN a ELSE Gcd(b, a % b)

Norm(n, d) ==
    IF d = 0 THEN RNaN
    ELSE LET s == IF d < 0 THEN -1 ELSE 1
             g == Gcd(Abs(n), Abs(d))
         IN  IF n = 0 THEN <<0, 1>> ELSE <<(s * n) \div g, (s * d) \div g>>

FromInt(i) == <<i, 1>>
RAdd(a, b) == IF IsNaN(a) \/ IsNaN(b) THEN RNaN
              ELSE Norm(a[1] * b[2] + b[1] * a[2], a[2] * b[2])
RMul(a, b) == IF IsNaN(a) \/ IsNaN(b) THEN RNaN ELSE Norm(a[1] * b[1], a[2] * b[2])
RDivInt(a, k) == IF IsNaN(a) \/ k = 0 THEN RNaN ELSE Norm(a[1], a[2] * k)
RLess(a, b) == a[1] * b[2] < b[1] * a[2]
=============================================================================
