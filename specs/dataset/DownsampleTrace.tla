------------------------------ MODULE DownsampleTrace ------------------------------
(* C16, code -> spec: recorded calls on large random arrays.  A record carries   *)
(* only counts: total points, valid points, request, mode, and what came back    *)
(* (size of the mask, whether the mask selects only eligible points, whether the *)
(* returned values are the input values under the mask, whether a repetition     *)
(* gave the same mask).  The required size is computed here.                     *)
EXTENDS Integers, Sequences, TLC, Json, IOUtils

Traces == JsonDeserialize(IOEnv.TRACE_FILE)

VARIABLES tid, done

Required(r) ==
    LET elig == IF r.rmInv THEN r.nvalid ELSE r.total
    IN  IF r.n > 0 /\ r.n < elig THEN r.n ELSE elig

Verdict(r) ==
    IF r.raised THEN "raised"
    ELSE IF r.returned # Required(r) THEN "wrong-number-returned"
    ELSE IF ~r.subsetOK THEN "selects-ineligible-point"
    ELSE IF ~r.unchanged THEN "values-altered-or-mask-mismatch"
    ELSE IF ~r.deterministic THEN "not-reproducible"
    ELSE "ok"

TInit == tid \in 1..Len(Traces) /\ done = FALSE
TStep == ~done /\ done' = TRUE /\ UNCHANGED tid
Report ==
    done =>
      IF Verdict(Traces[tid]) = "ok"
      THEN PrintT(<<"OK", ToJson([tid |-> tid])>>)
      ELSE PrintT(<<"REJ", ToJson([tid |-> tid, line |-> 1, why |-> Verdict(Traces[tid])])>>)
=============================================================================
