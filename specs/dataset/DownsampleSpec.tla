------------------------------ MODULE DownsampleSpec ------------------------------
(***************************************************************************)
(* C16: downsampling returns a reproducible subset of the requested size.  *)
(*                                                                         *)
(* An input is a sequence of points; point i is valid (finite in both      *)
(* coordinates) or not and, if valid, lies in grid cell cell[i].  A        *)
(* request is (n, removeInvalid).  The specification is the property's     *)
(* post-condition and nothing else: which points are chosen is free.       *)
(* DownsampleImpl (below, same module for brevity) transcribes the three   *)
(* data-dependent branches of downsample_grid.                             *)
(***************************************************************************)
EXTENDS Integers, Sequences, FiniteSets

CONSTANTS MaxN,        \* inputs have 0..MaxN points
          Cells,       \* grid cells a valid point may fall into
          MaxReq,      \* requests are 0..MaxReq
          PadClamped   \* repaired: never pad with more invalid points than exist

VARIABLES pts,         \* sequence of [valid: BOOLEAN, cell]
          n, rmInv,    \* the request
          mask         \* the set of indices selected by the implementation model

vars == <<pts, n, rmInv, mask>>

Idx == 1..Len(pts)
Valid == {i \in Idx : pts[i].valid}
Eligible == IF rmInv THEN Valid ELSE Idx

\* how many points must be returned
Required == IF n > 0 /\ n < Cardinality(Eligible) THEN n ELSE Cardinality(Eligible)

\* the post-condition of the property for a returned mask M
PostOK(M) == /\ M \subseteq Eligible
             /\ Cardinality(M) = Required

\* ------------- downsample_grid as implemented (abstracted) -------------
\* first point of every occupied cell, in input order
GridKeep == {i \in Valid : \A j \in Valid : (pts[j].cell = pts[i].cell) => i <= j}

\* any subset of S with k elements (np.random.choice without replacement);
\* raises (modelled as "error") when k > |S|
Choices(S, k) == {T \in SUBSET S : Cardinality(T) = k}

GridResults ==
    LET nv == Cardinality(Valid)
        step1 == IF n > 0 /\ n < nv
                 THEN LET g == GridKeep
                          d == Cardinality(g) - n
                      IN  IF d > 0 THEN {g \ R : R \in Choices(g, d)}
                          ELSE IF d < 0 THEN {g \cup A : A \in Choices(Valid \ g, -d)}
                          ELSE {g}
                 ELSE {Valid}
    IN  IF rmInv THEN [ok |-> TRUE, masks |-> step1]
        ELSE LET bad == Idx \ Valid
                 target == IF n > 0 THEN n ELSE Len(pts)
             IN  IF \E k \in step1 : target - Cardinality(k) > Cardinality(bad) /\ ~PadClamped
                 THEN [ok |-> FALSE, masks |-> {}]          \* ValueError
                 ELSE [ok |-> TRUE,
                       masks |-> UNION {
                          LET d == target - Cardinality(k)
                              dd == IF d > Cardinality(bad) THEN Cardinality(bad) ELSE d
                          IN  IF dd > 0 THEN {k \cup B : B \in Choices(bad, dd)} ELSE {k}
                          : k \in step1}]

PointSeqs == UNION {[1..k -> [valid : BOOLEAN, cell : Cells]] : k \in 0..MaxN}

Init == /\ pts \in PointSeqs
        /\ \A i \in 1..Len(pts) : ~pts[i].valid => pts[i].cell = CHOOSE c \in Cells : TRUE
        /\ n \in 0..MaxReq
        /\ rmInv \in BOOLEAN
        /\ mask = {}

Next == UNCHANGED vars

\* the implementation never raises and every mask it can produce is allowed
GridCorrect == /\ GridResults.ok
               /\ \A M \in GridResults.masks : PostOK(M)
=============================================================================
