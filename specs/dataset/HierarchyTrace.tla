------------------------------ MODULE HierarchyTrace ------------------------------
(* C04, code -> spec: recorded edit/refresh sessions (free interleavings chosen  *)
(* by TLC's simulator or by a random driver) are checked against HierarchySpec.  *)
(* Levels are logged as sequences indexed 1..L+1 (level l at position l+1).      *)
EXTENDS HierarchySpec, TLC, Json, IOUtils

Traces == JsonDeserialize(IOEnv.TRACE_FILE)
VARIABLES tid, pos, why
tvars == <<hvars, tid, pos, why>>

TInit == HInit /\ tid \in 1..Len(Traces) /\ pos = 1 /\ why = "ok"
Ev == Traces[tid].ev[pos]
ToSet(s) == {s[i] : i \in 1..Len(s)}

Act(e) == CASE e.a = "setpred" -> SetPred(e.l, ToSet(e.P))
            [] e.a = "exclude" -> Exclude(e.l, e.i)
            [] e.a = "include" -> Include(e.l, e.i)
            [] e.a = "rootver" -> SetRootVer(e.v)
            [] e.a = "settemp" -> SetTemp(e.l, e.v)
            [] e.a = "rejuvenate" -> Rejuvenate

Mismatch(e) ==
    IF e.a # "rejuvenate" THEN "ok"
    ELSE IF \E l \in Levels : e.views[l + 1] # view'[l] THEN "views"
    ELSE IF \E l \in Levels : ToSet(e.manvis[l + 1]) # last'.manvis[l] THEN "manvis"
    ELSE IF ToSet(e.sel) # last'.sel THEN "selection"
    ELSE IF e.featbad THEN "features"
    ELSE IF \E i \in All : e.temp[i] # tempRoot'[i] THEN "temporary-feature"
    ELSE "ok"

TStep == /\ why = "ok" /\ pos <= Len(Traces[tid].ev)
         /\ pos' = pos + 1 /\ UNCHANGED tid
         /\ IF Ev.raised THEN why' = "raised" /\ UNCHANGED hvars
            ELSE \/ ENABLED Act(Ev) /\ Act(Ev) /\ why' = Mismatch(Ev)
                 \/ ~ENABLED Act(Ev) /\ why' = "not-enabled" /\ UNCHANGED hvars

Report ==
    /\ (why = "ok" /\ pos = Len(Traces[tid].ev) + 1) =>
            PrintT(<<"OK", ToJson([tid |-> tid])>>)
    /\ (why # "ok") =>
            PrintT(<<"REJ", ToJson([tid |-> tid, line |-> pos - 1, why |-> why])>>)
=============================================================================
