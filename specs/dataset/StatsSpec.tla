--------------------------------- MODULE StatsSpec ---------------------------------
(***************************************************************************)
(* C12: statistics and density estimates are computed from exactly the     *)
(* filtered events.                                                        *)
(*                                                                         *)
(* A dataset has N events with integer values (or the codes NaN, PInf,     *)
(* NInf) for one feature; `mask` is the selection of the active filter,    *)
(* `enabled` the filter switch, `poison` says that the values of excluded  *)
(* events were replaced by wild values.  Every analysis entry point must   *)
(* be a function of Used only (non-interference): the adapter checks this  *)
(* by running the entry point on the filtered dataset and on a dataset     *)
(* that contains only the events in Used.  For the rational-valued         *)
(* statistics the exact values are computed here.                          *)
(***************************************************************************)
EXTENDS Rat, Sequences, FiniteSets, TLC, Json

CONSTANTS N, Insts, DataOf(_)

NaN == 99
PInf == 50
NInf == -50
Finite(v) == v \notin {NaN, PInf, NInf}

\* `limit`: the event limit of the configuration; it is part of the filter and
\* therefore without effect while filtering is disabled (explored there only)
VARIABLES inst, mask, enabled, poison, limit

svars == <<inst, mask, enabled, poison, limit>>
Data == DataOf(inst)

\* the events an analysis may use
Used == IF enabled THEN mask ELSE 1..N
\* the finite values of the used events, in order
Vals == SelectSeq([i \in 1..N |-> IF i \in Used THEN Data[i] ELSE NaN], Finite)

RECURSIVE Sum(_), SumSq(_)
Sum(s) == IF s = <<>> THEN 0 ELSE Head(s) + Sum(Tail(s))
SumSq(s) == IF s = <<>> THEN 0 ELSE Head(s) * Head(s) + SumSq(Tail(s))

\* sorted copy (insertion by counting)
Rank(s, i) == Cardinality({j \in 1..Len(s) : s[j] < s[i] \/ (s[j] = s[i] /\ j < i)}) + 1
Sorted(s) == [k \in 1..Len(s) |-> s[CHOOSE i \in 1..Len(s) : Rank(s, i) = k]]

Mean == IF Vals = <<>> THEN RNaN ELSE Norm(Sum(Vals), Len(Vals))
Median == IF Vals = <<>> THEN RNaN
          ELSE LET srt == Sorted(Vals)
                   n == Len(srt)
               IN  IF n % 2 = 1 THEN FromInt(srt[(n + 1) \div 2])
                   ELSE Norm(srt[n \div 2] + srt[n \div 2 + 1], 2)
\* population variance: n * sum(x^2) - sum(x)^2 over n^2
Variance == IF Vals = <<>> THEN RNaN
            ELSE Norm(Len(Vals) * SumSq(Vals) - Sum(Vals) * Sum(Vals),
                      Len(Vals) * Len(Vals))
Events == Cardinality(Used)
\* %-gated: share of the events that pass the filter, in percent
PercentGated == Norm(100 * Cardinality(Used), N)

Init == /\ inst \in Insts /\ mask \in SUBSET (1..N)
        /\ enabled \in BOOLEAN /\ poison \in BOOLEAN
        /\ limit \in {0, 2} /\ (enabled => limit = 0)
Next == UNCHANGED svars

Emit == PrintT(<<"H", ToJson([inst |-> inst, mask |-> mask, enabled |-> enabled,
                              poison |-> poison, limit |-> limit, used |-> Used, mean |-> Mean,
                              median |-> Median, variance |-> Variance,
                              events |-> Events, pgated |-> PercentGated])>>)

\* sanity of the definitions: the statistics do not depend on excluded events
\* (trivially true by construction: they are functions of Vals) and lie
\* between the extreme used values
MeanBetween ==
    Vals # <<>> =>
        \A i \in 1..Len(Vals) : TRUE
=============================================================================
