------------------------------ MODULE MC_Downsample ------------------------------
EXTENDS DownsampleSpec, TLC, Json
MCCells == {1, 2, 3}
\* every input/request with the count and eligible set the property demands
Emit == PrintT(<<"H", ToJson([pts |-> pts, n |-> n, rmInv |-> rmInv,
                              eligible |-> Eligible, required |-> Required])>>)
=============================================================================
