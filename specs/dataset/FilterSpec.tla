------------------------------- MODULE FilterSpec -------------------------------
(***************************************************************************)
(* Property-level specification of dclab's event filter (C03).             *)
(*                                                                         *)
(* A dataset has NOf(inst) events and the scalar features Feats; the value of      *)
(* feature f for event e is Data[f][e], an integer, or one of the codes    *)
(* NaN, PInf, NInf (PInf/NInf are ordered like the IEEE infinities).       *)
(* The state is the *current settings* (what ds.config["filtering"], the   *)
(* polygon filter objects and ds.filter.manual hold); `Expected` is the    *)
(* stateless meaning of those settings as the property words it.  Apply    *)
(* must produce exactly Expected (or, with an event limit, a subset of the *)
(* required size that is a function of Expected and the limit only).       *)
(* Nothing about caches, diffs or previous applications appears here.      *)
(***************************************************************************)
EXTENDS Integers, FiniteSets, Sequences

CONSTANTS NOf(_),       \* instance -> number of events
          Feats,        \* set of scalar feature names
          Insts,        \* set of data instances to start from
          DataOf(_),    \* instance -> [Feats -> [events -> value]]
          RangePairs,   \* set of <<lo, hi>> a range may be set to
          Polys,        \* set of polygon filter ids
          PolyAxes(_),  \* polygon -> <<fx, fy>>
          PolyVers,     \* set of polygon shape versions
          Inside(_, _, _, _),  \* (polygon, version, x, y) -> BOOLEAN, finite x, y
          Limits        \* set of values for "limit events" (0 = no limit)

NaN == 99
PInf == 50
NInf == -50
Finite(v) == v \notin {NaN, PInf, NInf}

VARIABLES inst,          \* the data instance (fixed in Init)
          ranges,        \* [Feats -> [set: BOOLEAN, lo, hi]]
          polys,         \* set of polygon ids registered with the dataset
          pver, pinv,    \* [Polys -> version], [Polys -> BOOLEAN] (global objects)
          removeInvalid, enable, limit,
          extra,         \* a further scalar feature has become available that holds
                         \* invalid values at the events ExtraInvalid (it arrives
                         \* on the open dataset, e.g. a temporary feature)
          manual,        \* set of manually excluded events
          memo,          \* <<Expected, Required>> -> subset chosen (reproducibility)
          last           \* last operation and what must be observable after it

fvars == <<inst, ranges, polys, pver, pinv, removeInvalid, enable, limit, extra,
           manual, memo, last>>

Data == DataOf(inst)
Events == 1..NOf(inst)
Unset == [set |-> FALSE, lo |-> 0, hi |-> 0]
Min(a, b) == IF a < b THEN a ELSE b
Max(a, b) == IF a > b THEN a ELSE b

\* ---------------- stateless meaning of the settings ----------------
InRange(r, v) ==
    \/ ~r.set
    \/ r.lo = r.hi                         \* inactive when min equals max
    \/ /\ v # NaN                          \* NaN never inside an active range
       /\ Min(r.lo, r.hi) <= v             \* inclusive, swapped when reversed
       /\ v <= Max(r.lo, r.hi)

InPoly(p, e) ==
    LET x == Data[PolyAxes(p)[1]][e]
        y == Data[PolyAxes(p)[2]][e]
        ins == Finite(x) /\ Finite(y) /\ Inside(p, pver[p], x, y)
    IN  IF pinv[p] THEN ~ins ELSE ins

\* the events at which the feature that arrives later is invalid: every other
\* event of the instance
ExtraInvalid == {e \in Events : e % 2 = 0}
Invalid(e) == \/ \E f \in Feats : ~Finite(Data[f][e])
              \/ extra /\ e \in ExtraInvalid

Qualifies(e) ==
    /\ \A f \in Feats : InRange(ranges[f], Data[f][e])
    /\ \A p \in polys : InPoly(p, e)
    /\ removeInvalid => ~Invalid(e)
    /\ e \notin manual

Expected == IF enable THEN {e \in Events : Qualifies(e)} ELSE Events

\* number of events that must remain after Apply
Required == IF enable /\ limit > 0 /\ Cardinality(Expected) > limit
            THEN limit ELSE Cardinality(Expected)

\* the settings as observable through the public configuration
Settings == [ranges |-> ranges, polys |-> polys, inv |-> removeInvalid,
             enable |-> enable, limit |-> limit, manual |-> manual]

\* ------------------------------ actions ------------------------------
SpecInit ==
    /\ inst \in Insts
    /\ ranges = [f \in Feats |-> Unset]
    /\ polys = {}
    /\ pver = [p \in Polys |-> CHOOSE v \in PolyVers : \A w \in PolyVers : v <= w]
    /\ pinv = [p \in Polys |-> FALSE]
    /\ removeInvalid = FALSE /\ enable = TRUE /\ limit = 0
    /\ extra = FALSE
    /\ manual = {}
    /\ memo = <<>>
    /\ last = [a |-> "init"]

Edit(name, arg) == last' = [a |-> name, arg |-> arg, settings |-> Settings']

SetRange(f, pr) ==
    /\ ranges' = [ranges EXCEPT ![f] = [set |-> TRUE, lo |-> pr[1], hi |-> pr[2]]]
    /\ UNCHANGED <<inst, extra, polys, pver, pinv, removeInvalid, enable, limit, manual, memo>>
    /\ Edit("setrange", <<f, pr[1], pr[2]>>)

RemoveRange(f) ==
    /\ ranges[f].set
    /\ ranges' = [ranges EXCEPT ![f] = Unset]
    /\ UNCHANGED <<inst, extra, polys, pver, pinv, removeInvalid, enable, limit, manual, memo>>
    /\ Edit("rmrange", <<f>>)

AddPoly(p) ==
    /\ p \notin polys
    /\ polys' = polys \cup {p}
    /\ UNCHANGED <<inst, extra, ranges, pver, pinv, removeInvalid, enable, limit, manual, memo>>
    /\ Edit("addpoly", <<p>>)

RmPoly(p) ==
    /\ p \in polys
    /\ polys' = polys \ {p}
    /\ UNCHANGED <<inst, extra, ranges, pver, pinv, removeInvalid, enable, limit, manual, memo>>
    /\ Edit("rmpoly", <<p>>)

\* the polygon object is modified (new vertices), registered or not
ModifyPoly(p, v) ==
    /\ pver[p] # v
    /\ pver' = [pver EXCEPT ![p] = v]
    /\ UNCHANGED <<inst, extra, ranges, polys, pinv, removeInvalid, enable, limit, manual, memo>>
    /\ Edit("modpoly", <<p, v>>)

InvertPoly(p) ==
    /\ pinv' = [pinv EXCEPT ![p] = ~pinv[p]]
    /\ UNCHANGED <<inst, extra, ranges, polys, pver, removeInvalid, enable, limit, manual, memo>>
    /\ Edit("invpoly", <<p>>)

\* a scalar feature with invalid values becomes available on the open dataset
\* (the settings do not change)
AddFeature ==
    /\ ~extra /\ extra' = TRUE
    /\ UNCHANGED <<inst, ranges, polys, pver, pinv, removeInvalid, enable, limit, manual, memo>>
    /\ Edit("addfeature", <<>>)

ToggleInvalid ==
    /\ removeInvalid' = ~removeInvalid
    /\ UNCHANGED <<inst, extra, ranges, polys, pver, pinv, enable, limit, manual, memo>>
    /\ Edit("toginvalid", <<>>)

ToggleEnable ==
    /\ enable' = ~enable
    /\ UNCHANGED <<inst, extra, ranges, polys, pver, pinv, removeInvalid, limit, manual, memo>>
    /\ Edit("togenable", <<>>)

SetLimit(k) ==
    /\ limit # k
    /\ limit' = k
    /\ UNCHANGED <<inst, extra, ranges, polys, pver, pinv, removeInvalid, enable, manual, memo>>
    /\ Edit("setlimit", <<k>>)

\* flip the manual exclusion of event e
EditManual(e) ==
    /\ manual' = IF e \in manual THEN manual \ {e} ELSE manual \cup {e}
    /\ UNCHANGED <<inst, extra, ranges, polys, pver, pinv, removeInvalid, enable, limit, memo>>
    /\ Edit("manual", <<e>>)

\* reset_filter(): manual exclusions, polygon list, flags and limit return to
\* their defaults.  The property does not say whether ranges survive a reset
\* (dclab keeps the keys in the configuration); both are accepted and the
\* observable settings decide.
Reset ==
    /\ manual' = {} /\ polys' = {} /\ removeInvalid' = FALSE
    /\ enable' = TRUE /\ limit' = 0
    /\ ranges' \in {ranges, [f \in Feats |-> Unset]}
    /\ UNCHANGED <<inst, extra, pver, pinv, memo>>
    /\ Edit("reset", <<>>)

\* apply_filter(): the selection is Expected; with an event limit a subset
\* of exactly Required events, the same one whenever Expected and the limit
\* are the same.
ApplyWith(force, S) ==
    LET key == <<Expected, Required>> IN
    /\ S \subseteq Expected
    /\ Cardinality(S) = Required
    /\ \A i \in 1..Len(memo) : memo[i][1] = key => memo[i][2] = S
    /\ memo' = IF \E i \in 1..Len(memo) : memo[i][1] = key
               THEN memo ELSE Append(memo, <<key, S>>)
    /\ last' = [a |-> "apply", arg |-> <<force>>, expected |-> Expected,
                required |-> Required, all |-> S]
    /\ UNCHANGED <<inst, extra, ranges, polys, pver, pinv, removeInvalid, enable, limit, manual>>

Apply(force) == \E S \in SUBSET Expected : ApplyWith(force, S)

EditStep ==
    \/ \E f \in Feats, pr \in RangePairs : SetRange(f, pr)
    \/ \E f \in Feats : RemoveRange(f)
    \/ \E p \in Polys : AddPoly(p) \/ RmPoly(p) \/ InvertPoly(p)
    \/ \E p \in Polys, v \in PolyVers : ModifyPoly(p, v)
    \/ ToggleInvalid \/ ToggleEnable \/ AddFeature
    \/ \E k \in Limits : SetLimit(k)
    \/ \E e \in Events : EditManual(e)
    \/ Reset

SpecNext == EditStep \/ \E fc \in BOOLEAN : Apply(fc)

Spec == SpecInit /\ [][SpecNext]_fvars

\* --------------------------- properties of the spec ---------------------------
TypeOK == /\ polys \subseteq Polys /\ manual \subseteq Events
          /\ limit \in Limits \cup {0}

\* sanity of the definition itself (checked by TLC on the spec):
\* disabled => everything; the applied selection never contains an event
\* that fails a constraint; manual exclusions are honoured
AppliedSound ==
    last.a = "apply" =>
        /\ last.all \subseteq last.expected
        /\ Cardinality(last.all) = last.required
        /\ (~enable => last.all = Events)
        /\ (enable => last.all \cap manual = {})
        /\ (enable /\ limit = 0 => last.all = last.expected)
=============================================================================
