------------------------------ MODULE HierarchyImpl ------------------------------
(***************************************************************************)
(* C04, implementation-shaped: the algorithm by which dclab keeps manual   *)
(* exclusions of hierarchy children attached to root events                *)
(* (fmt_hierarchy/hfilter.py, mapper.py, base.py), transcribed.            *)
(*                                                                         *)
(* Level 0 is the root, levels 1..L are nested children.  Per level:       *)
(*   ev[l]   the root ids of the events the level currently holds          *)
(*   man[l]  Filter.manual: one boolean per event (FALSE = excluded)       *)
(*   pf[l]   Filter.all as computed by the level's last apply_filter       *)
(*   ids[l]  HierarchyFilter._man_root_ids (l >= 1)                        *)
(*   ph[l]   HierarchyFilter._parent_hash (l >= 1)                         *)
(*   box[l]  the set of root ids the level's range filters accept          *)
(* The index mappers work on the pf arrays of the ancestors exactly as     *)
(* mapper.py does (np.where(parent.filter.all)).                           *)
(*                                                                         *)
(* youngest.rejuvenate() is RTDC_Hierarchy.apply_filter of level L:        *)
(*   phase 1 (top of every apply_filter, youngest first, old arrays):      *)
(*     retrieve_manual_indices                                             *)
(*   phase 2 (root first): copy the parent's selection, and if the parent  *)
(*     changed (hash) recreate the filter and re-apply the root ids        *)
(*     (_check_parent_filter), then compute Filter.all.                    *)
(*                                                                         *)
(* HashAncestors = TRUE is the tree as repaired (the parent hash includes  *)
(* the parent's own hash when the parent is a child itself); FALSE is the  *)
(* pinned commit (hash of parent.filter.all only): TLC then finds the      *)
(* grand-parent change that leaves the parent's boolean array identical.   *)
(*                                                                         *)
(* gMan is a ghost variable: HierarchySpec's manRoot, updated by the       *)
(* edits exactly as the specification says (the root id of the event shown *)
(* at the edited position).  The invariants compare the implementation     *)
(* state after every rejuvenation with the specification's FreshView.      *)
(***************************************************************************)
EXTENDS Integers, Sequences, FiniteSets, TLC

CONSTANTS N, L, Preds, HashAncestors, MaxDepth

VARIABLES box, ev, man, pf, ids, ph, gMan, lastA, err, depth

ivars == <<box, ev, man, pf, ids, ph, gMan, lastA, err, depth>>
Levels == 0..L
Kids == 1..L
All == 1..N
RootView == [i \in 1..N |-> i]
Range(s) == {s[i] : i \in 1..Len(s)}

\* np.where(b)[0] (1-based)
Where(b) ==
    LET F[i \in 0..Len(b)] ==
            IF i = 0 THEN <<>> ELSE IF b[i] THEN Append(F[i - 1], i) ELSE F[i - 1]
    IN  F[Len(b)]

\* ---- mapper.py, on a given family p of filter arrays ----
\* a mapping problem (index beyond the array) is reported as the index 0
Child2Parent(k, I, p) ==
    LET w == Where(p[k - 1]) IN {IF i \in 1..Len(w) THEN w[i] ELSE 0 : i \in I}
RECURSIVE Child2Root(_, _, _)
Child2Root(k, I, p) == IF k = 0 THEN I ELSE Child2Root(k - 1, Child2Parent(k, I, p), p)
Parent2Child(k, S, p) ==
    LET w == Where(p[k - 1]) IN {j \in 1..Len(w) : w[j] \in S}
RECURSIVE Root2Child(_, _, _, _)
Root2Child(k, l, S, p) == IF k > l THEN S ELSE Root2Child(k + 1, l, Parent2Child(k, S, p), p)

\* ---- hashes ----
RECURSIVE DsHash(_, _)
DsHash(l, p) == IF l = 0 THEN <<"root">> ELSE <<DsHash(l - 1, p), p[l - 1]>>
ParentHash(l, p) == IF HashAncestors /\ l >= 2 THEN <<p[l - 1], DsHash(l - 1, p)>>
                    ELSE <<p[l - 1]>>

\* ---- HierarchyFilter.retrieve_manual_indices (old arrays) ----
Retrieve(l) ==
    IF ph[l] # ParentHash(l, pf) THEN ids[l]
    ELSE LET pbool == Child2Root(l, {i \in 1..Len(man[l]) : ~man[l][i]}, pf)
             pall == pbool \cup ids[l]
             pvisc == Root2Child(1, l, pall, pf)
             pvisp == Child2Root(l, pvisc, pf)
             phid == pall \ pvisp
         IN  pbool \cup phid

\* ---- phase 2, level by level; st: record of functions over 0..k ----
Level0 ==
    [ev |-> (0 :> RootView),
     man |-> (0 :> man[0]),
     pf |-> (0 :> [i \in 1..N |-> i \in box[0] /\ man[0][i]]),
     ids |-> (0 :> {}), ph |-> (0 :> <<>>), bad |-> FALSE]

NextLevel(k, st, ids1) ==
    LET w == Where(st.pf[k - 1])
        evk == [j \in 1..Len(w) |-> st.ev[k - 1][w[j]]]
        newhash == ParentHash(k, st.pf)
        changed == ph[k] # newhash
        cidx == Root2Child(1, k, ids1[k], st.pf)
        mank == IF changed THEN [j \in 1..Len(evk) |-> j \notin cidx] ELSE man[k]
        mism == Len(mank) # Len(evk)            \* numpy would raise
        pfk == [j \in 1..Len(evk) |->
                   evk[j] \in box[k] /\ (IF j \in 1..Len(mank) THEN mank[j] ELSE TRUE)]
    IN  [ev |-> st.ev @@ (k :> evk), man |-> st.man @@ (k :> mank),
         pf |-> st.pf @@ (k :> pfk), ids |-> st.ids @@ (k :> ids1[k]),
         ph |-> st.ph @@ (k :> newhash), bad |-> st.bad \/ mism]

RECURSIVE Build(_, _, _)
Build(k, st, ids1) == IF k > L THEN st ELSE Build(k + 1, NextLevel(k, st, ids1), ids1)

Init ==
    /\ box = [l \in Levels |-> All]
    /\ ev = [l \in Levels |-> RootView]
    /\ man = [l \in Levels |-> [i \in 1..N |-> TRUE]]
    /\ pf = [l \in Levels |-> [i \in 1..N |-> TRUE]]
    /\ ids = [l \in Levels |-> {}]
    /\ ph = [l \in Levels |-> IF l = 0 THEN <<>>
                              ELSE ParentHash(l, [m \in Levels |-> [i \in 1..N |-> TRUE]])]
    /\ gMan = [l \in Levels |-> {}]
    /\ lastA = "init" /\ err = FALSE /\ depth = 0

SetBox(l, P) ==
    /\ box[l] # P /\ box' = [box EXCEPT ![l] = P]
    /\ lastA' = "setbox" /\ UNCHANGED <<ev, man, pf, ids, ph, gMan, err>>

\* ds.filter.manual[i] = False / True on the level's current arrays
Exclude(l, i) ==
    /\ i \in 1..Len(man[l]) /\ i \in 1..Len(ev[l]) /\ man[l][i]
    /\ man' = [man EXCEPT ![l][i] = FALSE]
    /\ gMan' = [gMan EXCEPT ![l] = @ \cup {ev[l][i]}]
    /\ lastA' = "exclude" /\ UNCHANGED <<box, ev, pf, ids, ph, err>>
Include(l, i) ==
    /\ i \in 1..Len(man[l]) /\ i \in 1..Len(ev[l]) /\ ~man[l][i]
    /\ man' = [man EXCEPT ![l][i] = TRUE]
    /\ gMan' = [gMan EXCEPT ![l] = @ \ {ev[l][i]}]
    /\ lastA' = "include" /\ UNCHANGED <<box, ev, pf, ids, ph, err>>

Rejuvenate ==
    LET ids1 == [l \in Levels |-> IF l = 0 THEN {} ELSE Retrieve(l)]
        st == Build(1, Level0, ids1)
    IN  /\ ev' = st.ev /\ man' = st.man /\ pf' = st.pf /\ ids' = st.ids /\ ph' = st.ph
        /\ err' = (err \/ st.bad \/ \E l \in Kids : 0 \in ids1[l])
        /\ lastA' = "rejuvenate" /\ UNCHANGED <<box, gMan>>

Next == /\ depth < MaxDepth /\ depth' = depth + 1
        /\ \/ \E l \in Levels, P \in Preds : SetBox(l, P)
           \/ \E l \in Levels, i \in 1..N : Exclude(l, i) \/ Include(l, i)
           \/ Rejuvenate

\* ---- the specification's view of the same history ----
Selected(l, v) == SelectSeq(v, LAMBDA e : e \in box[l] /\ e \notin gMan[l])
RECURSIVE FreshView(_)
FreshView(l) == IF l = 0 THEN RootView ELSE Selected(l - 1, FreshView(l - 1))

NoMappingError == ~err
ChildIsFilteredParent ==
    lastA = "rejuvenate" => \A l \in Levels : ev[l] = FreshView(l)
ExclusionsStayWithEvents ==
    lastA = "rejuvenate" =>
        \A l \in Levels : \A i \in 1..Len(ev[l]) :
            i \in 1..Len(man[l]) /\ (man[l][i] <=> ev[l][i] \notin gMan[l])
=============================================================================
