-------------------------------- MODULE MC_Filter --------------------------------
(* Model-checking instance shared by FilterSpec / FilterImpl / history runs (C03) *)
EXTENDS FilterImpl, TLC, Json

CONSTANTS MaxDepth, Alternate

VARIABLE h

MCNOf(i) == 4
MCFeats == {"f1", "f2"}
MCInsts == {1, 2, 3}
MCDataOf(i) ==
    CASE i = 1 -> [f1 |-> <<0, 1, 2, 3>>,      f2 |-> <<3, 1, 1, 0>>]
      [] i = 2 -> [f1 |-> <<1, NaN, 2, PInf>>, f2 |-> <<2, 2, NInf, 1>>]
      [] i = 3 -> [f1 |-> <<1, 1, 2, 2>>,      f2 |-> <<NaN, 0, 3, 3>>]
MCRangePairs == {<<1, 2>>, <<2, 1>>, <<1, 1>>, <<0, 3>>, <<2, 3>>}
MCPolys == {1, 2}
MCPolyAxes(p) == IF p = 1 THEN <<"f1", "f2">> ELSE <<"f2", "f1">>
MCPolyVers == {1, 2}
\* polygon 1: v1 = rectangle x in 1..2, y in 1..3; v2 = rectangle x,y in 0..1
\* polygon 2: v1 = L-shape (x <= 1 or y <= 1) in 0..3; v2 = x in 2..3, y in 0..3
MCInside(p, v, x, y) ==
    CASE p = 1 /\ v = 1 -> x \in 1..2 /\ y \in 1..3
      [] p = 1 /\ v = 2 -> x \in 0..1 /\ y \in 0..1
      [] p = 2 /\ v = 1 -> x \in 0..3 /\ y \in 0..3 /\ (x <= 1 \/ y <= 1)
      [] p = 2 /\ v = 2 -> x \in 2..3 /\ y \in 0..3
MCLimits == {0, 1, 2}

Depth == TLCGet("level") <= MaxDepth

\* ----- history enumeration on the property-level spec (spec -> code) -----
\* Apply is recorded by what it requires (expected set, required size); the
\* choice of the subset under an event limit is left to the implementation
\* and judged by the adapter against exactly these two requirements.
HApply(force) ==
    /\ last' = [a |-> "apply", arg |-> <<force>>, expected |-> Expected,
                required |-> Required]
    /\ UNCHANGED <<inst, extra, ranges, polys, pver, pinv, removeInvalid, enable,
                   limit, manual, memo>>

\* (the implementation-level variables are unused in history runs and h is
\* unused in the design-level runs; they are pinned to constants)
HInit == SpecInit /\ h = <<>>
         /\ boxCache = 0 /\ polyCache = 0 /\ oldCfg = 0 /\ iall = 0
MCImplInit == ImplInit /\ h = <<>>
MCImplNext == ImplNext /\ UNCHANGED h
HNext ==
    /\ \/ (Alternate => last.a \in {"init", "apply"}) /\ EditStep
       \/ (Alternate => last.a \notin {"init", "apply"})
             /\ \E fc \in {FALSE} : HApply(fc)
       \/ ~Alternate /\ HApply(TRUE)
    /\ h' = Append(h, last')
    /\ UNCHANGED <<boxCache, polyCache, oldCfg, iall>>
Emit == (Len(h) = MaxDepth) =>
            PrintT(<<"H", ToJson([inst |-> inst, h |-> h])>>)
HCon == Len(h) <= MaxDepth /\ Emit
=============================================================================
