------------------------------ MODULE MC_Ancillary ------------------------------
EXTENDS AncillarySpec, TLC, Json
CONSTANTS MaxDepth
VARIABLES h, c0
MCKeys == {"lut", "medium", "temperature", "viscosity", "model", "pixel",
           "framerate", "ct21", "ct31"}
\* ("ct21", "ct31": two crosstalk coefficients; in the two-channel variants of the
\* replay they are coefficients of the channel pair the dataset holds - fl21/fl31
\* with channels 1+2, fl13/fl31 with channels 1+3)
MCVals(k) ==
    CASE k = "lut" -> {"LE-2D-FEM-19"}
      [] k = "medium" -> {"CellCarrier", "other"}
      [] k = "temperature" -> {"23", "30"}
      [] k = "viscosity" -> {"5", "8"}
      [] k = "model" -> {"buyukurganci-2022"}
      [] k = "pixel" -> {"0.34", "0.5"}
      [] k = "framerate" -> {"2000", "3000"}
      [] k = "ct21" -> {"0.1", "0.2"}
      [] k = "ct31" -> {"0.15", "0.3"}
MCDeletable == {"lut", "medium", "temperature", "viscosity", "model", "ct21", "ct31"}
Base == [k \in MCKeys |-> CASE k = "pixel" -> "0.34" [] k = "framerate" -> "2000"
                               [] OTHER -> "absent"]
With(f, kv) == [k \in MCKeys |-> IF k \in DOMAIN kv THEN kv[k] ELSE f[k]]
MCPresets == {
    Base,
    \* scenario C complete
    With(Base, [lut |-> "LE-2D-FEM-19", medium |-> "CellCarrier",
                temperature |-> "23", model |-> "buyukurganci-2022"]),
    \* scenario A complete (needs the temp feature)
    With(Base, [lut |-> "LE-2D-FEM-19", medium |-> "CellCarrier",
                model |-> "buyukurganci-2022"]),
    \* scenario B complete
    With(Base, [lut |-> "LE-2D-FEM-19", viscosity |-> "5"]),
    \* everything set, medium "other"
    With(Base, [lut |-> "LE-2D-FEM-19", medium |-> "other", temperature |-> "23",
                viscosity |-> "5", model |-> "buyukurganci-2022", ct21 |-> "0.1"]),
    \* crosstalk keys of the channel pair 1-2 and one of the pair 1-3
    With(Base, [ct21 |-> "0.1", ct31 |-> "0.15"]),
    \* B with explicit medium other
    With(Base, [lut |-> "LE-2D-FEM-19", medium |-> "other", viscosity |-> "5"])}
MCTempVers == {1, 2}
MCFeats == {"emodulus", "time", "fl1_max_ctc", "area_ratio"}
HInit == AInit /\ h = <<>> /\ c0 = [cfg |-> cfg, temp |-> temp]
HNext == ANext /\ h' = Append(h, last') /\ UNCHANGED c0
\* the last step of an emitted history always observes
Emit == (Len(h) = MaxDepth /\ last.state.observe) =>
            PrintT(<<"H", ToJson([init |-> c0, h |-> h])>>)
HCon == Len(h) <= MaxDepth /\ Emit
=============================================================================
