------------------------------ MODULE ReadOrderSpec ------------------------------
(***************************************************************************)
(* C06 (reads in between): what a read returns does not depend on which    *)
(* features were read before.                                              *)
(*                                                                         *)
(* A file-based dataset holds image, background and mask: every feature of *)
(* Feats can be computed on demand; several of them are computed together  *)
(* by one recipe (Group).  Some of them (Provided) are in addition offered *)
(* by a basin - with the basin's own values.  Source(f) says where a       *)
(* freshly opened dataset takes f from; the specification of Read is that  *)
(* every read returns Source(f), whatever was read before: `done` is only  *)
(* a history variable and no action looks at it.                           *)
(***************************************************************************)
EXTENDS Integers, Sequences, FiniteSets, TLC, Json

CONSTANTS Feats,        \* features that can be computed on demand
          Group(_),     \* f -> the features computed together with f
          MaxReads

VARIABLES provided,     \* subset of Feats also offered by a basin
          done          \* sequence of [f, from] reads so far

Source(f) == IF f \in provided THEN "basin" ELSE "computed"

Init == provided \in SUBSET Feats /\ done = <<>>
Read(f) == /\ Len(done) < MaxReads
           /\ done' = Append(done, [f |-> f, from |-> Source(f)])
           /\ UNCHANGED provided
Next == \E f \in Feats : Read(f)

\* history-freedom, as an invariant over the recorded reads
HistoryFree == \A i \in 1..Len(done) : done[i].from = Source(done[i].f)

MCFeats == {"bright_avg", "bright_sd", "bright_perc_10", "bright_perc_90"}
MCGroup(f) == IF f \in {"bright_avg", "bright_sd"} THEN {"bright_avg", "bright_sd"}
              ELSE {"bright_perc_10", "bright_perc_90"}
\* only histories that read two members of one group are interesting, but
\* all are emitted: the adapter decides nothing
Emit == (Len(done) = MaxReads) =>
            PrintT(<<"H", ToJson([provided |-> provided, reads |-> done])>>)
=============================================================================
