------------------------------ MODULE FeatureSetsSpec ------------------------------
(***************************************************************************)
(* Beyond the listed properties (X01): which features a dataset offers.    *)
(*                                                                         *)
(* A dataset holds some features innately (stored in the file); further    *)
(* features are offered when a recipe for them is applicable: all features *)
(* the recipe needs are offered themselves (recursively) and the           *)
(* configuration holds the keys the recipe needs.  What is offered is the  *)
(* least fixed point Avail.  The user-visible statements:                  *)
(*   - `f in ds`, `f in ds.features` and "ds[f] returns data of len(ds)"   *)
(*     are equivalent, and equivalent to f \in Avail;                      *)
(*   - features_innate = the stored features;                              *)
(*   - features_ancillary = the offered recipe outputs that are not stored;*)
(*   - features_loaded contains the stored features, the offered "rapid"   *)
(*     features and every offered feature that was accessed;               *)
(*   - reading a feature does not change what is offered; editing the      *)
(*     configuration of the open dataset changes it exactly as Avail says. *)
(* The recipes are the documented dependency table of the ancillary        *)
(* features (docs: "ancillary features"), restricted to one cluster of     *)
(* names per model instance.                                               *)
(***************************************************************************)
EXTENDS Integers, Sequences, FiniteSets, TLC, Json

CONSTANTS Names,        \* feature names of this cluster
          Storable,     \* names that may be stored in the file
          Flags,        \* configuration key groups
          Media,        \* values of "emodulus medium": "absent", "known", "other"
          Recipes,      \* set of [out, f, c, m]
          Rapid,        \* recipe outputs that count as loaded when offered
          Refusals,     \* deliberate refusals [out, f, m, lack, have, err]: reading the
                        \* offered feature `out` raises `err` when the features f are
                        \* all offered, the medium is in m and the configuration lacks
                        \* some key group of `lack` (if not empty) or has all key groups
                        \* of `have` (if not empty)
          MaxDepth

VARIABLES innate, flags, medium, accessed, h

fvars == <<innate, flags, medium, accessed, h>>

Applicable(r, S, fl, med) == r.f \subseteq S /\ r.c \subseteq fl /\ med \in r.m

RECURSIVE Close(_, _, _)
Close(S, fl, med) ==
    LET T == S \cup {r.out : r \in {q \in Recipes : Applicable(q, S, fl, med)}}
    IN  IF T = S THEN S ELSE Close(T, fl, med)

Avail(inn, fl, med) == Close(inn, fl, med)

Outputs == {r.out : r \in Recipes}

Obs(inn, fl, med, acc) ==
    LET av == Avail(inn, fl, med) IN
    [avail |-> av, innate |-> inn, anc |-> (av \cap Outputs) \ inn,
     mustloaded |-> inn \cup (av \cap Rapid) \cup (acc \cap av)]

Rec(step) == [step |-> step, obs |-> Obs(innate', flags', medium', accessed')]

FInit == /\ innate \in SUBSET Storable /\ innate # {}
         /\ flags \in SUBSET Flags
         /\ medium \in Media
         /\ accessed = {}
         /\ h = <<[step |-> [a |-> "open", innate |-> innate, flags |-> flags,
                             medium |-> medium, names |-> Names],
                   obs |-> Obs(innate, flags, medium, {})]>>

\* ds[f]: data for offered features, KeyError otherwise; nothing else changes
Access(f) ==
    /\ LET av == Avail(innate, flags, medium)
           refs == {r \in Refusals :
                       /\ r.out = f /\ r.f \subseteq av /\ medium \in r.m
                       /\ \/ (r.lack # {} /\ ~(r.lack \subseteq flags))
                          \/ (r.have # {} /\ r.have \subseteq flags)}
           ok == f \in av /\ refs = {} IN
       /\ accessed' = IF ok THEN accessed \cup {f} ELSE accessed
       /\ UNCHANGED <<innate, flags, medium>>
       /\ h' = Append(h, Rec([a |-> "access", f |-> f,
                               out |-> IF ok THEN "data"
                                       ELSE IF f \notin av THEN "KeyError"
                                       ELSE (CHOOSE r \in refs : TRUE).err]))

SetFlag(c) ==
    /\ c \notin flags /\ flags' = flags \cup {c}
    /\ UNCHANGED <<innate, medium, accessed>>
    /\ h' = Append(h, Rec([a |-> "setflag", c |-> c]))

ClearFlag(c) ==
    /\ c \in flags /\ flags' = flags \ {c}
    /\ UNCHANGED <<innate, medium, accessed>>
    /\ h' = Append(h, Rec([a |-> "clearflag", c |-> c]))

SetMedium(m) ==
    /\ m # medium /\ medium' = m
    /\ UNCHANGED <<innate, flags, accessed>>
    /\ h' = Append(h, Rec([a |-> "setmedium", m |-> m]))

FNext ==
    \/ \E f \in Names : Access(f)
    \/ \E c \in Flags : SetFlag(c) \/ ClearFlag(c)
    \/ \E m \in Media : SetMedium(m)

\* ------------------------------ properties ------------------------------
\* reading never changes what is offered
ReadOnlyAccess ==
    [][h'[Len(h')].step.a = "access" =>
          h'[Len(h')].obs.avail = h[Len(h)].obs.avail]_fvars
\* what is offered is monotone in the stored features and the configuration
\* (checked on the recipe table itself)
Monotone ==
    \A c \in Flags : Avail(innate, flags, medium) \subseteq Avail(innate, flags \cup {c}, medium)
\* stored features are always offered; everything offered is stored or derived
Sound == LET av == Avail(innate, flags, medium) IN
         innate \subseteq av /\ av \subseteq innate \cup Outputs

Emit == (Len(h) = MaxDepth) => PrintT(<<"H", ToJson(h)>>)
HCon == Len(h) <= MaxDepth /\ Emit
=============================================================================
