------------------------------- MODULE FilterTrace -------------------------------
(***************************************************************************)
(* Trace validation for C03: long recorded edit/apply sessions of real     *)
(* datasets are checked against FilterSpec.  All numbers in a trace are    *)
(* small integers (four times the real value: data are half-integers,      *)
(* polygon edges lie on odd quarters so no event is ever on a boundary);   *)
(* membership of every event in every range/polygon is decided here, by    *)
(* the specification, from the logged data and settings.                   *)
(*   trace = [n, data: [f1, f2: <<codes>>], polys: <<<<rect v1, rect v2>>>>,*)
(*            ev: <<[a, arg, settings | all]>>]                            *)
(* A polygon version is a list of rectangles <<x0, x1, y0, y1>> (inside iff *)
(* x0 < x < x1 /\ y0 < y < y1 for one of them; their union is the polygon).  *)
(***************************************************************************)
EXTENDS FilterSpec, TLC, Json, IOUtils

Traces == JsonDeserialize(IOEnv.TRACE_FILE)

VARIABLES l, why
tvars == <<fvars, l, why>>

TNOf(i) == Traces[i].n
TFeats == {"f1", "f2"}
TDataOf(i) == Traces[i].data
TPolys == {1, 2}
TPolyAxes(p) == IF p = 1 THEN <<"f1", "f2">> ELSE <<"f2", "f1">>
TPolyVers == {1, 2}
TInside(p, v, x, y) ==
    \E i \in 1..Len(Traces[inst].polys[p][v]) :
        LET r == Traces[inst].polys[p][v][i]
        IN  r[1] < x /\ x < r[2] /\ r[3] < y /\ y < r[4]

TInit == /\ SpecInit
         /\ l = 1
         /\ why = "ok"

Ev == Traces[inst].ev[l]
ToSet(s) == {s[i] : i \in 1..Len(s)}

\* settings as logged (sequences) -> as the spec holds them (sets)
LoggedSettings(e) ==
    [ranges |-> [f \in TFeats |-> [set |-> e.settings.ranges[f].set,
                                   lo |-> e.settings.ranges[f].lo,
                                   hi |-> e.settings.ranges[f].hi]],
     polys |-> ToSet(e.settings.polys), inv |-> e.settings.inv,
     enable |-> e.settings.enable, limit |-> e.settings.limit,
     manual |-> ToSet(e.settings.manual)]

EditAct(e) ==
    CASE e.a = "setrange" -> SetRange(e.arg[1], <<e.arg[2], e.arg[3]>>)
      [] e.a = "rmrange" -> RemoveRange(e.arg[1])
      [] e.a = "addpoly" -> AddPoly(e.arg[1])
      [] e.a = "rmpoly" -> RmPoly(e.arg[1])
      [] e.a = "modpoly" -> ModifyPoly(e.arg[1], e.arg[2])
      [] e.a = "invpoly" -> InvertPoly(e.arg[1])
      [] e.a = "toginvalid" -> ToggleInvalid
      [] e.a = "addfeature" -> AddFeature
      [] e.a = "togenable" -> ToggleEnable
      [] e.a = "setlimit" -> SetLimit(e.arg[1])
      [] e.a = "manual" -> EditManual(e.arg[1])
      [] e.a = "reset" -> Reset

\* why a logged selection is not what the specification demands
ApplyVerdict(S) ==
    LET key == <<Expected, Required>> IN
    IF ~(S \subseteq Expected) THEN "selects-excluded-event"
    ELSE IF enable /\ limit = 0 /\ S # Expected THEN "misses-qualifying-event"
    ELSE IF Cardinality(S) # Required THEN "wrong-number-selected"
    ELSE IF \E i \in 1..Len(memo) : memo[i][1] = key /\ memo[i][2] # S
         THEN "not-reproducible"
    ELSE "ok"

TStep ==
    /\ why = "ok"
    /\ l <= Len(Traces[inst].ev)
    /\ l' = l + 1
    /\ LET e == Ev IN
       IF e.a = "apply"
       THEN LET S == ToSet(e.all) IN
            IF ApplyVerdict(S) = "ok"
            THEN ApplyWith(e.arg[1], S) /\ why' = "ok"
            ELSE why' = ApplyVerdict(S) /\ UNCHANGED fvars
       ELSE \/ /\ ENABLED EditAct(e)
               /\ EditAct(e)
               /\ why' = IF Settings' = LoggedSettings(e) THEN "ok"
                         ELSE "settings-differ"
            \/ /\ ~ENABLED EditAct(e)
               /\ why' = "edit-not-enabled"
               /\ UNCHANGED fvars

Report ==
    /\ (why = "ok" /\ l = Len(Traces[inst].ev) + 1) =>
            PrintT(<<"OK", ToJson([tid |-> inst])>>)
    /\ (why # "ok") =>
            PrintT(<<"REJ", ToJson([tid |-> inst, line |-> l - 1, why |-> why])>>)
=============================================================================
