------------------------------ MODULE MC_FeatureSets ------------------------------
(* instances of FeatureSetsSpec: one cluster of the documented dependency table each *)
EXTENDS FeatureSetsSpec

AnyMedium == {"absent", "known", "other"}
R(out, f, c, m) == [out |-> out, f |-> f, c |-> c, m |-> m]

\* ---- cluster E: deformation / area / Young's modulus
ENames == {"circ", "deform", "area_cvx", "area_msd", "area_um", "area_ratio", "temp",
           "emodulus"}
EStorable == {"circ", "deform", "area_cvx", "area_msd", "area_um", "temp"}
EFlags == {"pixel", "lut", "temperature", "viscosity"}
ERecipes == {
    R("deform", {"circ"}, {}, AnyMedium),
    R("area_ratio", {"area_cvx", "area_msd"}, {}, AnyMedium),
    R("area_um", {"area_cvx"}, {"pixel"}, AnyMedium),
    \* case C: known medium, temperature from the configuration
    R("emodulus", {"area_um", "deform"}, {"lut", "temperature", "pixel"}, {"known"}),
    \* case A: known medium, temperature feature
    R("emodulus", {"area_um", "deform", "temp"}, {"lut", "pixel"}, {"known"}),
    \* case B: viscosity given, medium "other" or not given
    R("emodulus", {"area_um", "deform"}, {"lut", "viscosity", "pixel"}, {"absent", "other"})}
\* deliberate (documented in af_emodulus): a viscosity given together with a known
\* medium is refused when the Young's modulus is computed
ERefusals == {[out |-> "emodulus", f |-> {}, m |-> {"known"}, lack |-> {},
               have |-> {"viscosity"}, err |-> "ValueError"]}
ERapid == {"area_ratio", "area_um", "deform"}
\* a rich starting point for longer edit/access sequences
ERichInit == /\ innate = {"circ", "area_cvx", "area_msd", "temp"}
             /\ flags = EFlags \ {"viscosity"} /\ medium = "known" /\ accessed = {}
             /\ h = <<[step |-> [a |-> "open", innate |-> innate, flags |-> flags,
                                 medium |-> medium, names |-> Names],
                       obs |-> Obs(innate, flags, medium, {})]>>

\* ---- cluster I: image-derived features, time, index
INames == {"mask", "image", "image_bg", "contour", "bright_avg", "bright_sd",
           "bright_bc_avg", "bright_bc_sd", "bright_perc_10", "bright_perc_90",
           "inert_ratio_cvx", "inert_ratio_prnc", "inert_ratio_raw", "tilt",
           "pos_x", "pos_y", "volume", "size_x", "size_y", "aspect", "frame", "time",
           "index"}
IStorable == {"mask", "image", "image_bg", "pos_x", "pos_y", "size_x", "size_y", "frame"}
IFlags == {"pixel", "rate"}
NoMedia == {"absent"}
IRecipes == {
    R("index", {}, {}, AnyMedium),
    R("time", {"frame"}, {"rate"}, AnyMedium),
    R("aspect", {"size_x", "size_y"}, {}, AnyMedium),
    R("contour", {"mask"}, {}, AnyMedium),
    R("volume", {"contour", "pos_x", "pos_y"}, {"pixel"}, AnyMedium)}
  \cup {R(b, {"image", "mask"}, {}, AnyMedium) : b \in {"bright_avg", "bright_sd"}}
  \cup {R(b, {"image", "image_bg", "mask"}, {}, AnyMedium) :
            b \in {"bright_bc_avg", "bright_bc_sd", "bright_perc_10", "bright_perc_90"}}
  \cup {R(b, {"contour"}, {}, AnyMedium) :
            b \in {"inert_ratio_cvx", "inert_ratio_prnc", "inert_ratio_raw", "tilt"}}
IRapid == {"aspect", "index", "time"}
IRichInit == /\ innate = {"mask", "image", "pos_x", "pos_y", "frame"}
             /\ flags = IFlags /\ medium = "absent" /\ accessed = {}
             /\ h = <<[step |-> [a |-> "open", innate |-> innate, flags |-> flags,
                                 medium |-> medium, names |-> Names],
                       obs |-> Obs(innate, flags, medium, {})]>>

\* ---- cluster F: fluorescence maxima and crosstalk correction
FNames == {"fl1_max", "fl2_max", "fl3_max", "fl1_max_ctc", "fl2_max_ctc", "fl3_max_ctc"}
FStorable == {"fl1_max", "fl2_max", "fl3_max"}
FFlags == {"ct12", "ct13", "ct23"}
FRecipes ==
    {R(o, FStorable, FFlags, AnyMedium) : o \in {"fl1_max_ctc", "fl2_max_ctc", "fl3_max_ctc"}}
  \cup {R(o, {"fl1_max", "fl2_max"}, {"ct12"}, AnyMedium) : o \in {"fl1_max_ctc", "fl2_max_ctc"}}
  \cup {R(o, {"fl1_max", "fl3_max"}, {"ct13"}, AnyMedium) : o \in {"fl1_max_ctc", "fl3_max_ctc"}}
  \cup {R(o, {"fl2_max", "fl3_max"}, {"ct23"}, AnyMedium) : o \in {"fl2_max_ctc", "fl3_max_ctc"}}
NoRapid == {}
NoRefusals == {}
\* deliberate: with all three channels present the whole crosstalk matrix is demanded
\* when a corrected maximum is read, although the two-channel recipes offer it
FRefusals == {[out |-> o, f |-> FStorable, m |-> AnyMedium, lack |-> FFlags, have |-> {},
               err |-> "MissingCrosstalkMatrixElementsError"] :
                  o \in {"fl1_max_ctc", "fl2_max_ctc", "fl3_max_ctc"}}
=============================================================================
