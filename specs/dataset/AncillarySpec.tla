------------------------------ MODULE AncillarySpec ------------------------------
(***************************************************************************)
(* C06: computed (ancillary) features reflect the current data and         *)
(* settings.                                                               *)
(*                                                                         *)
(* State: the configuration keys any recipe reads (each absent or holding  *)
(* one of its values), the temporary `temp` feature (absent or a version). *)
(* The specification is history-free: what a read returns is Fresh, a      *)
(* function of the *current* state only (the adapter realises Fresh with a *)
(* newly constructed dataset holding the same data and the current         *)
(* configuration), and `in` must agree with whether the read succeeds.     *)
(* The documented precedence is stated as laws on Fresh: scenario C (fixed *)
(* temperature) ignores the `temp` feature.                                *)
(* The temporary feature set (one version number) also holds temporary     *)
(* features named like two computed features (time, area_ratio): a         *)
(* temporary feature takes precedence over a computed one of the same      *)
(* name, whether or not that one was read before (law tempShadows).        *)
(* Nothing about hashes, caches or priorities appears here.                *)
(***************************************************************************)
EXTENDS Integers, Sequences, FiniteSets

CONSTANTS Keys,          \* configuration keys
          Vals(_),       \* key -> set of values it may be set to
          Deletable,     \* keys that may be removed
          Presets,       \* set of initial configurations [Keys -> value or "absent"]
          TempVers,      \* versions of the temporary `temp` feature
          Feats          \* computed features that are read

VARIABLES cfg,           \* [Keys -> value or "absent"]
          temp,          \* 0 = no temp feature, else its version
          last

avars == <<cfg, temp, last>>

\* what a freshly opened dataset with the current state would give for f
Fresh(f) == [f |-> f, cfg |-> cfg, temp |-> temp]

\* documented: with a known medium and a fixed temperature (scenario C) the
\* per-event temperature feature is not used
ScenarioC == /\ cfg["lut"] # "absent" /\ cfg["temperature"] # "absent"
             /\ cfg["medium"] \notin {"absent", "other"}

\* the documented precedence of the Young's modulus scenarios (sec_emodulus_usage):
\*   B  an explicit viscosity with medium "other" (or none): temperature key and
\*      temperature feature are ignored
\*   C  a known medium with a fixed temperature
\*   A  a known medium with the per-event temperature feature
\*   "conflict": a known medium together with an explicit viscosity (refused)
Scenario(c, t) ==
    IF c["lut"] = "absent" THEN "none"
    ELSE IF c["viscosity"] # "absent" /\ c["medium"] \in {"absent", "other"} THEN "B"
    ELSE IF c["medium"] \in {"absent", "other"} THEN "none"
    ELSE IF c["viscosity"] # "absent" THEN "conflict"
    ELSE IF c["temperature"] # "absent" THEN "C"
    ELSE IF t # 0 THEN "A"
    ELSE "none"

AInit == /\ cfg \in Presets /\ temp \in {0} \cup TempVers
         /\ last = [a |-> "init"]

Observe(obs) ==
    [cfg |-> cfg', temp |-> temp', observe |-> obs,
     scenario |-> Scenario(cfg', temp'),
     tempShadows |-> temp' # 0,
     cIgnoresTemp |-> (cfg'["lut"] # "absent" /\ cfg'["temperature"] # "absent"
                       /\ cfg'["medium"] \notin {"absent", "other"} /\ temp' # 0)]

SetKey(k, v, obs) ==
    /\ cfg[k] # v
    /\ cfg' = [cfg EXCEPT ![k] = v] /\ UNCHANGED temp
    /\ last' = [a |-> "set", k |-> k, v |-> v, state |-> Observe(obs)]
DelKey(k, obs) ==
    /\ cfg[k] # "absent"
    /\ cfg' = [cfg EXCEPT ![k] = "absent"] /\ UNCHANGED temp
    /\ last' = [a |-> "del", k |-> k, state |-> Observe(obs)]
SetTemp(ver, obs) ==
    /\ temp # ver
    /\ temp' = ver /\ UNCHANGED cfg
    /\ last' = [a |-> "settemp", ver |-> ver, state |-> Observe(obs)]

\* every step is an edit followed (or not) by reading every computed feature
\* and testing its availability
ANext ==
    \E obs \in BOOLEAN :
        \/ \E k \in Keys : \E v \in Vals(k) : SetKey(k, v, obs)
        \/ \E k \in Deletable : DelKey(k, obs)
        \/ \E ver \in TempVers : SetTemp(ver, obs)
=============================================================================
