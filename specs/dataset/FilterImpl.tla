------------------------------- MODULE FilterImpl -------------------------------
(***************************************************************************)
(* Implementation-shaped specification of dclab.rtdc_dataset.filter.Filter *)
(* (C03): the incremental algorithm of Filter.update, transcribed.         *)
(*   boxCache  = Filter._box_filters   (feature -> boolean array)          *)
(*   polyCache = Filter._poly_filters  (id -> (hash, boolean array))       *)
(*   oldCfg    = Filter._old_config    (settings at the last update)       *)
(* The settings variables and edit actions are those of FilterSpec; only   *)
(* Apply and Reset differ.  DiffOldKeys = FALSE is the algorithm as found  *)
(* at the pinned commit (only keys present in the *current* settings are   *)
(* compared with the old ones); TRUE is the repaired algorithm.            *)
(***************************************************************************)
EXTENDS FilterSpec

CONSTANT DiffOldKeys

VARIABLES boxCache,    \* [Feats -> [has: BOOLEAN, pass: SUBSET Events]]
          polyCache,   \* [Polys -> [has: BOOLEAN, ver, inv, pass]]
          oldCfg,      \* [has: BOOLEAN, ranges]
          iall         \* the selection computed by the algorithm

ivars == <<fvars, boxCache, polyCache, oldCfg, iall>>

NoBox == [has |-> FALSE, pass |-> {}]
NoPoly == [has |-> FALSE, ver |-> 0, inv |-> FALSE, pass |-> {}]
NoOld == [has |-> FALSE, ranges |-> [f \in Feats |-> Unset]]

ImplInit ==
    /\ SpecInit
    /\ boxCache = [f \in Feats |-> NoBox]
    /\ polyCache = [p \in Polys |-> NoPoly]
    /\ oldCfg = NoOld
    /\ iall = Events

IEdit == EditStep /\ ~(last'.a = "reset")
         /\ UNCHANGED <<boxCache, polyCache, oldCfg, iall>>

\* RTDCBase.reset_filter: Filter.reset() + default values; the range keys
\* stay in the configuration
IReset ==
    /\ Reset /\ ranges' = ranges
    /\ boxCache' = [f \in Feats |-> NoBox]
    /\ polyCache' = [p \in Polys |-> NoPoly]
    /\ oldCfg' = NoOld
    /\ UNCHANGED iall

\* which features are re-filtered: "<f> min"/"<f> max" differ from the old
\* settings.  As found, only keys of the current settings are looked at, so
\* a pair that was deleted is never noticed.
Changed(f) ==
    LET cur == ranges[f]
        old == oldCfg.ranges[f]
    IN  \/ cur.set /\ (~old.set \/ old.lo # cur.lo \/ old.hi # cur.hi)
        \/ DiffOldKeys /\ ~cur.set /\ old.set

BoxPass(f) ==
    {e \in Events : InRange(ranges[f], Data[f][e])}

PolyPass(p) == {e \in Events : InPoly(p, e)}

IApply(force) ==
    LET \* _init_rtdc_ds: drop cached polygon results no longer registered
        pc1 == [p \in Polys |-> IF p \in polys THEN polyCache[p] ELSE NoPoly]
        feat2filter == {f \in Feats : Changed(f) \/ force}
        bc2 == [f \in Feats |->
                  IF f \in feat2filter
                  THEN [has |-> TRUE, pass |-> BoxPass(f)]
                  ELSE boxCache[f]]
        arrBox == {e \in Events : \A f \in Feats : bc2[f].has => e \in bc2[f].pass}
        pc2 == [p \in Polys |->
                  IF p \in polys /\ (~pc1[p].has \/ pc1[p].ver # pver[p]
                                     \/ pc1[p].inv # pinv[p])
                  THEN [has |-> TRUE, ver |-> pver[p], inv |-> pinv[p],
                        pass |-> PolyPass(p)]
                  ELSE pc1[p]]
        arrPoly == {e \in Events : \A p \in Polys : pc2[p].has => e \in pc2[p].pass}
        arrInv == IF removeInvalid THEN {e \in Events : ~Invalid(e)} ELSE Events
        comb == ((arrBox \cap arrInv) \cap arrPoly) \ manual
        \* downsample_rand: a fixed function of (size, limit); any fixed rule
        lim == IF limit > 0 /\ Cardinality(comb) > limit
               THEN CHOOSE S \in SUBSET comb : Cardinality(S) = limit
               ELSE comb
    IN  /\ boxCache' = bc2
        /\ polyCache' = pc2
        /\ oldCfg' = [has |-> TRUE, ranges |-> ranges]
        /\ iall' = IF enable THEN lim ELSE Events
        /\ last' = [a |-> "apply", arg |-> <<force>>, expected |-> Expected,
                    required |-> Required, all |-> iall']
        /\ UNCHANGED <<inst, extra, ranges, polys, pver, pinv, removeInvalid, enable,
                       limit, manual, memo>>

ImplNext == IEdit \/ IReset \/ \E fc \in BOOLEAN : IApply(fc)

\* ----------------------------- what must hold -----------------------------
\* the algorithm's selection has the meaning of the current settings
SelectionCorrect ==
    last.a = "apply" =>
        /\ iall \subseteq last.expected
        /\ Cardinality(iall) = last.required
=============================================================================
