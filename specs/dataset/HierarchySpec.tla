------------------------------ MODULE HierarchySpec ------------------------------
(***************************************************************************)
(* C04: a hierarchy child is exactly the filtered view of its parent.      *)
(*                                                                         *)
(* The root measurement has the events 1..N (root ids).  Level 0 is the    *)
(* root, levels 1..L are nested hierarchy children.  Every level l has a   *)
(* filter: a box-type predicate pred[l] (the set of root ids whose feature *)
(* values lie in the configured range - feature values are carried over    *)
(* unchanged, so a predicate on values is a predicate on root ids) and     *)
(* manual exclusions manRoot[l], kept in *root ids* so that they stay with *)
(* the same underlying measurement events, including while those events    *)
(* are hidden because an ancestor filters them out.                        *)
(* view[l] is what level l showed at its last refresh: the sequence of     *)
(* root ids of its events.  Edits address events through the view.         *)
(***************************************************************************)
EXTENDS Integers, Sequences, FiniteSets

CONSTANTS N,           \* number of root events
          L,           \* number of nested children
          Preds        \* family of predicates: sets of root ids

VARIABLES pred,        \* [0..L -> SUBSET 1..N]
          manRoot,     \* [0..L -> SUBSET 1..N]
          view,        \* [0..L -> Seq(1..N)], view[0] = <<1..N>> always
          rootVer,     \* version of root-level data that feeds computed/temporary features
          tempRoot,    \* [1..N -> 0 (NaN) or version]: the temporary feature that was
                       \* assigned through some level (held by the root)
          partial,     \* TRUE while only some levels are refreshed (after SetTemp)
          last

hvars == <<pred, manRoot, view, rootVer, tempRoot, partial, last>>

Levels == 0..L
All == 1..N
Range(s) == {s[i] : i \in 1..Len(s)}
RootView == [i \in 1..N |-> i]

\* the events level l passes on to level l+1
Selected(l, v) == SelectSeq(v, LAMBDA e : e \in pred[l] /\ e \notin manRoot[l])

\* the views of all levels after a refresh from the youngest member
RECURSIVE FreshView(_)
FreshView(l) == IF l = 0 THEN RootView ELSE Selected(l - 1, FreshView(l - 1))

HInit == /\ pred = [l \in Levels |-> All]
         /\ manRoot = [l \in Levels |-> {}]
         /\ view = [l \in Levels |-> RootView]
         /\ rootVer = 1
         /\ tempRoot = [i \in All |-> 0]
         /\ partial = FALSE
         /\ last = [a |-> "init"]

\* change the range filter of level l
SetPred(l, P) ==
    /\ pred[l] # P
    /\ pred' = [pred EXCEPT ![l] = P]
    /\ UNCHANGED <<manRoot, view, rootVer, tempRoot, partial>>
    /\ last' = [a |-> "setpred", l |-> l, P |-> P]

\* manually exclude / re-include the event shown at position i of level l
Exclude(l, i) ==
    /\ i \in 1..Len(view[l]) /\ view[l][i] \notin manRoot[l]
    /\ manRoot' = [manRoot EXCEPT ![l] = @ \cup {view[l][i]}]
    /\ UNCHANGED <<pred, view, rootVer, tempRoot, partial>>
    /\ last' = [a |-> "exclude", l |-> l, i |-> i, e |-> view[l][i]]

Include(l, i) ==
    /\ i \in 1..Len(view[l]) /\ view[l][i] \in manRoot[l]
    /\ manRoot' = [manRoot EXCEPT ![l] = @ \ {view[l][i]}]
    /\ UNCHANGED <<pred, view, rootVer, tempRoot, partial>>
    /\ last' = [a |-> "include", l |-> l, i |-> i, e |-> view[l][i]]

\* root-level change that alters computed / temporary feature values
SetRootVer(v) ==
    /\ rootVer # v /\ rootVer' = v
    /\ UNCHANGED <<pred, manRoot, view, tempRoot, partial>>
    /\ last' = [a |-> "rootver", v |-> v]

\* a temporary feature is assigned through level l (version v, one value per
\* event the level shows): the root holds it, events the level does not show
\* get NaN, and every level shows the root's values of its own events
\* (the assignment refreshes level l and its ancestors - not the younger
\* levels, which keep showing what they showed)
\* Not explored while an earlier assignment has left the hierarchy partially
\* refreshed: the arrays of the level then do not fit its parent's and the
\* call may raise.
SetTemp(l, v) ==
    /\ ~partial /\ partial' = TRUE
    /\ tempRoot' = [i \in All |-> IF i \in Range(view[l]) THEN v ELSE 0]
    /\ tempRoot' # tempRoot
    /\ view' = [k \in Levels |-> IF k <= l THEN FreshView(k) ELSE view[k]]
    /\ UNCHANGED <<pred, manRoot, rootVer>>
    /\ last' = [a |-> "settemp", l |-> l, v |-> v]

\* youngest.rejuvenate(): every level shows its parent's selection
Rejuvenate ==
    /\ view' = [l \in Levels |-> FreshView(l)]
    /\ UNCHANGED <<pred, manRoot, rootVer, tempRoot>>
    /\ partial' = FALSE
    /\ last' = [a |-> "rejuvenate",
                views |-> [l \in Levels |-> FreshView(l)],
                \* manual exclusions visible at each level after the refresh
                manvis |-> [l \in Levels |-> manRoot[l] \cap Range(FreshView(l))],
                sel |-> Range(Selected(L, FreshView(L))),
                ver |-> rootVer,
                temp |-> [i \in All |-> tempRoot[i]]]

\* edits restricted to given levels / predicates (for focused enumerations)
EditStepR(PL, ML, PS, VS) ==
    \/ \E l \in PL, P \in PS : SetPred(l, P)
    \/ \E l \in ML, i \in 1..N : Exclude(l, i) \/ Include(l, i)
    \/ \E v \in VS : SetRootVer(v)
    \/ \E l \in ML, v \in VS : SetTemp(l, v)

EditStep == EditStepR(Levels, Levels, Preds, {1, 2})

HNext == EditStep \/ Rejuvenate

\* ------------------------------ properties ------------------------------
\* a view never shows an event its parent does not select (after a refresh)
ChildIsFilteredParent ==
    last.a = "rejuvenate" =>
        \A l \in 1..L : view[l] = Selected(l - 1, view[l - 1])
\* manual exclusions change only by explicit edits of that level
ManualStable ==
    [][\A l \in Levels : manRoot'[l] # manRoot[l] =>
            last'.a \in {"exclude", "include"} /\ last'.l = l]_hvars
=============================================================================
