------------------------------ MODULE MC_Hierarchy ------------------------------
EXTENDS HierarchySpec, TLC, Json
CONSTANTS MaxDepth, Alternate
VARIABLE h
\* intervals of root ids (a range filter on a monotone feature)
MCPreds == {1..5, 2..4, 1..3, 3..5, 2..2}
HHInit == HInit /\ h = <<>>
\* free interleavings (Alternate = FALSE, simulation) leave the assignment of
\* temporary features through a level out: with other edits pending it loses
\* manual edits (known finding, explored by TempNext alone)
EditNoTemp == \/ \E l \in Levels, P \in Preds : SetPred(l, P)
              \/ \E l \in Levels, i \in 1..N : Exclude(l, i) \/ Include(l, i)
              \/ \E v \in {1, 2} : SetRootVer(v)
HHNext == /\ \/ (Alternate => last.a \in {"init", "rejuvenate"})
                /\ (IF Alternate THEN EditStep ELSE EditNoTemp)
             \/ (Alternate => last.a \notin {"init", "rejuvenate"}) /\ Rejuvenate
          /\ h' = Append(h, last')
\* focused run: range filters only on the root, manual edits only on the
\* youngest member (index shifts between root, parent and grandchild)
FocusNext == /\ \/ last.a \in {"init", "rejuvenate"}
                   /\ EditStepR({0}, {L}, {2..4, 1..5, 2..5}, {})
                \/ last.a \notin {"init", "rejuvenate"} /\ Rejuvenate
             /\ h' = Append(h, last')
\* shifting run: root windows of equal size (which events pass changes, how
\* many does not: the filter arrays of intermediate levels stay identical),
\* manual edits only on the youngest member
ShiftNext == /\ \/ last.a \in {"init", "rejuvenate"}
                   /\ EditStepR({0}, {L}, {1..3, 2..4, 3..5}, {})
                \/ last.a \notin {"init", "rejuvenate"} /\ Rejuvenate
             /\ h' = Append(h, last')
\* temporary-feature run: a range filter is edited on some level (pending), a
\* feature is assigned through a level, an event is excluded on some level,
\* then the youngest member is refreshed
TempNext == /\ \/ last.a \in {"init", "rejuvenate"}
                  /\ \E l \in Levels, P \in {2..4, 1..3} : SetPred(l, P)
               \/ last.a = "setpred" /\ \E l \in Levels, v \in {1, 2} : SetTemp(l, v)
               \/ last.a = "settemp" /\ \E l \in Levels, i \in 1..N : Exclude(l, i)
               \/ last.a = "exclude" /\ Rejuvenate
            /\ h' = Append(h, last')
\* configuration run: the root's data/configuration version changes, an event
\* is excluded on some level, then the youngest member is refreshed
ConfNext == /\ \/ last.a \in {"init", "rejuvenate"} /\ \E v \in {1, 2} : SetRootVer(v)
               \/ last.a = "rootver" /\ \E l \in Levels, i \in 1..N : Exclude(l, i)
               \/ last.a = "exclude" /\ Rejuvenate
            /\ h' = Append(h, last')
\* emptying run: a range filter on the root or the first child lets all, some or
\* no events pass (a level is temporarily empty), manual edits on every level
EmptyNext == /\ \/ last.a \in {"init", "rejuvenate"}
                   /\ EditStepR({0, 1}, Levels, {1..5, {}, 2..4}, {})
                \/ last.a \notin {"init", "rejuvenate"} /\ Rejuvenate
             /\ h' = Append(h, last')
Emit == (Len(h) = MaxDepth) => PrintT(<<"H", ToJson(h)>>)
HCon == Len(h) <= MaxDepth /\ Emit
=============================================================================
