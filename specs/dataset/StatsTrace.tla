--------------------------------- MODULE StatsTrace ---------------------------------
(* C12, code -> spec: quantile law on larger random datasets.  A record carries the   *)
(* number of finite selected events n, the quantile q = qn/qd and how many of those   *)
(* events have a density strictly below / at most the reported level, as integers.    *)
(* The level must leave the fraction q of the events below it (within one event).     *)
EXTENDS Integers, Sequences, TLC, Json, IOUtils
Traces == JsonDeserialize(IOEnv.TRACE_FILE)
VARIABLES tid, done
Verdict(r) ==
    IF r.raised THEN "raised"
    ELSE IF ~r.noninterference THEN "excluded-events-influence-result"
    ELSE IF r.n = 0 THEN "ok"
    \* below <= q*n <= atmost (+- one event for the interpolation between order statistics)
    ELSE IF r.below * r.qd > r.qn * r.n + r.qd THEN "too-many-events-below-level"
    ELSE IF r.atmost * r.qd < r.qn * r.n - r.qd THEN "too-few-events-below-level"
    ELSE "ok"
TInit == tid \in 1..Len(Traces) /\ done = FALSE
TStep == ~done /\ done' = TRUE /\ UNCHANGED tid
Report ==
    done =>
      IF Verdict(Traces[tid]) = "ok"
      THEN PrintT(<<"OK", ToJson([tid |-> tid])>>)
      ELSE PrintT(<<"REJ", ToJson([tid |-> tid, line |-> 1, why |-> Verdict(Traces[tid])])>>)
=============================================================================
