--------------------------------- MODULE MomentsSpec ---------------------------------
(***************************************************************************)
(* C18 (area / inertia features): exact contour moments of lattice         *)
(* polygons by Green's formula, as integers over fixed denominators:       *)
(*   a2   = 2 * signed area                                                *)
(*   m10x6, m01x6, m20x12, m02x12, m11x24  (raw moments times 6/12/24)     *)
(* From these the adapter derives the exact central moments and            *)
(* inert_ratio_raw^2 = mu20 / mu02 as rationals and compares dclab's       *)
(* floats.  The spec also states the invariances: translation leaves the   *)
(* central moments unchanged, swapping the axes swaps mu20 and mu02.       *)
(***************************************************************************)
EXTENDS Integers, Sequences, FiniteSets, TLC, Json

CONSTANTS G, MinV, MaxV

VARIABLES poly

Grid == {<<i, j>> : i \in 0..(G - 1), j \in 0..(G - 1)}
Nxt(P, i) == IF i = Len(P) THEN 1 ELSE i + 1

RECURSIVE SeqSum(_)
SeqSum(s) == IF s = <<>> THEN 0 ELSE Head(s) + SeqSum(Tail(s))
\* sum over the edges a -> b of the closed polygon
SumOver(P, i, F(_, _)) == SeqSum([k \in 1..Len(P) |-> F(P[k], P[Nxt(P, k)])])

C(a, b) == a[1] * b[2] - b[1] * a[2]
A2(P) == SumOver(P, 1, C)
M10x6(P) == SumOver(P, 1, LAMBDA a, b : (a[1] + b[1]) * C(a, b))
M01x6(P) == SumOver(P, 1, LAMBDA a, b : (a[2] + b[2]) * C(a, b))
M20x12(P) == SumOver(P, 1, LAMBDA a, b : (a[1] * a[1] + a[1] * b[1] + b[1] * b[1]) * C(a, b))
M02x12(P) == SumOver(P, 1, LAMBDA a, b : (a[2] * a[2] + a[2] * b[2] + b[2] * b[2]) * C(a, b))
M11x24(P) == SumOver(P, 1, LAMBDA a, b :
                (a[1] * b[2] + 2 * a[1] * a[2] + 2 * b[1] * b[2] + b[1] * a[2]) * C(a, b))

\* central second moments times 72 * a2 (a common denominator):
\*   mu20 = m20 - m10^2 / m00 with m00 = a2/2, m10 = m10x6/6, m20 = m20x12/12
Mu20x(P) == 6 * A2(P) * M20x12(P) - 4 * M10x6(P) * M10x6(P)
Mu02x(P) == 6 * A2(P) * M02x12(P) - 4 * M01x6(P) * M01x6(P)

Translate(P, dx, dy) == [i \in 1..Len(P) |-> <<P[i][1] + dx, P[i][2] + dy>>]
Swap(P) == [i \in 1..Len(P) |-> <<P[i][2], P[i][1]>>]

Init == poly \in UNION {[1..k -> Grid] : k \in MinV..MaxV}
Next == UNCHANGED poly

\* laws of the definition (checked by TLC on every polygon)
TranslationInvariant ==
    /\ A2(Translate(poly, 3, 5)) = A2(poly)
    /\ Mu20x(Translate(poly, 3, 5)) = Mu20x(poly)
    /\ Mu02x(Translate(poly, 3, 5)) = Mu02x(poly)
SwapReciprocal ==
    /\ Mu20x(Swap(poly)) = Mu02x(poly) /\ Mu02x(Swap(poly)) = Mu20x(poly)
    /\ A2(Swap(poly)) = -A2(poly)

Emit == (A2(poly) # 0) =>
    PrintT(<<"H", ToJson([poly |-> poly, a2 |-> A2(poly), m10x6 |-> M10x6(poly),
                          m01x6 |-> M01x6(poly), m20x12 |-> M20x12(poly),
                          m02x12 |-> M02x12(poly), m11x24 |-> M11x24(poly),
                          mu20x |-> Mu20x(poly), mu02x |-> Mu02x(poly)])>>)
=============================================================================
