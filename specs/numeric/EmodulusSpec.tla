--------------------------------- MODULE EmodulusSpec ---------------------------------
(***************************************************************************)
(* C05: the Young's modulus is the scaled linear interpolation of the LUT. *)
(*                                                                         *)
(* A synthetic look-up table on an integer lattice whose Delaunay          *)
(* triangulation is unambiguous for every scaling of the axes: the three   *)
(* corners O, A, B of a triangle and one interior node M (always the fan   *)
(* O-A-M, A-B-M, B-O-M).  Lattice coordinates (u, v) stand for             *)
(*    area_um = 20 + 10 u,   deform = 0.01 + 0.02 v   in the LUT's set-up. *)
(* E(p) is the barycentric interpolation in the containing triangle, as an *)
(* exact rational; outside the hull it is NaN.  A call is made for a set-  *)
(* up that differs from the LUT's by integer ratios of channel width       *)
(* (wr), flow rate (qr) and viscosity (vr); the documented scaling laws    *)
(* give:  area scales with wr^2 (the event at lattice point (u, v) of the  *)
(* LUT set-up has area wr^2 * (20 + 10 u)),  E scales with qr * vr / wr^3. *)
(***************************************************************************)
EXTENDS Rat, Sequences, FiniteSets, TLC, Json

CONSTANTS MaxBatch, Lattice, Ratios

\* nodes: <<u, v, emodulus>>.  Two tables with the same number of nodes (and,
\* in the adapter, the same identifier in their metadata) but different node
\* positions, support and values: what a call returns is a function of the
\* table selected for THAT call only.
Luts == {1, 2}
O(l) == IF l = 1 THEN <<0, 0, 1>> ELSE <<1, 1, 2>>
A(l) == IF l = 1 THEN <<6, 0, 2>> ELSE <<7, 1, 1>>
B(l) == IF l = 1 THEN <<0, 6, 4>> ELSE <<1, 7, 3>>
M(l) == IF l = 1 THEN <<2, 2, 3>> ELSE <<3, 3, 5>>
Triangles(l) == {<<O(l), A(l), M(l)>>, <<A(l), B(l), M(l)>>, <<B(l), O(l), M(l)>>}

Cross(ax, ay, bx, by) == ax * by - ay * bx
\* twice the signed area of (a, b, p)
Area2(a, b, p) == Cross(b[1] - a[1], b[2] - a[2], p[1] - a[1], p[2] - a[2])

InTri(t, p) ==
    LET w1 == Area2(t[2], t[3], p)
        w2 == Area2(t[3], t[1], p)
        w3 == Area2(t[1], t[2], p)
    IN  (w1 >= 0 /\ w2 >= 0 /\ w3 >= 0) \/ (w1 <= 0 /\ w2 <= 0 /\ w3 <= 0)

Interp(t, p) ==
    LET w1 == Area2(t[2], t[3], p)
        w2 == Area2(t[3], t[1], p)
        w3 == Area2(t[1], t[2], p)
    IN  Norm(w1 * t[1][3] + w2 * t[2][3] + w3 * t[3][3], w1 + w2 + w3)

InHull(l, p) == \E t \in Triangles(l) : InTri(t, p)
OnHullEdge(l, p) == \/ Area2(O(l), A(l), p) = 0 \/ Area2(A(l), B(l), p) = 0
                    \/ Area2(B(l), O(l), p) = 0

\* interpolation in the LUT's own set-up (continuous across the fan's edges)
ELut(l, p) == IF ~InHull(l, p) THEN RNaN
              ELSE Interp(CHOOSE t \in Triangles(l) : InTri(t, p), p)

\* the expected modulus for set-up ratios [wr, qr, vr]
Expected(p, par) == RMul(ELut(par.lut, p), Norm(par.qr * par.vr, par.wr * par.wr * par.wr))

MCLattice == {-1, 0, 1, 2, 3, 4, 5, 7}
VARIABLES batch, par
\* axis: the table's first column is the area (scales with wr^2) or the
\* volume (scales with wr^3) of the event
Params == [wr : Ratios, qr : Ratios, vr : Ratios, lut : Luts, axis : {"area", "volume"}]
Init == /\ batch \in UNION {[1..k -> Lattice \X Lattice] : k \in 1..MaxBatch}
        /\ par \in Params
Next == UNCHANGED <<batch, par>>

\* laws of the definition (TLC): proportional to viscosity and flow rate,
\* invariant under a joint geometric rescaling (wr -> 2 wr, qr -> 8 qr),
\* independent of the other events of the batch
Laws ==
    \A i \in 1..Len(batch) :
        LET p == batch[i] IN
        /\ Expected(p, [par EXCEPT !.vr = 2 * par.vr]) = RMul(Expected(p, par), FromInt(2))
        /\ Expected(p, [par EXCEPT !.qr = 2 * par.qr]) = RMul(Expected(p, par), FromInt(2))
        /\ Expected(p, [par EXCEPT !.wr = 2 * par.wr, !.qr = 8 * par.qr]) = Expected(p, par)

Emit == PrintT(<<"H", ToJson([batch |-> batch, par |-> par,
                              expected |-> [i \in 1..Len(batch) |-> Expected(batch[i], par)],
                              onhull |-> [i \in 1..Len(batch) |-> OnHullEdge(par.lut, batch[i])]])>>)
=============================================================================
