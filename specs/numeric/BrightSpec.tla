--------------------------------- MODULE BrightSpec ---------------------------------
(* C18 (brightness): mean, variance and the 10th / 90th percentile (linear           *)
(* interpolation between order statistics) of the background-corrected image under   *)
(* the mask, as exact rationals over integer images; a background offset shifts      *)
(* mean and percentiles one-to-one.  Images are sequences of pixels.                 *)
EXTENDS Rat, Sequences, FiniteSets, TLC, Json
CONSTANTS NPix, PixVals, BgVals
VARIABLES img, bg, mask
Init == /\ img \in [1..NPix -> PixVals] /\ bg \in [1..NPix -> BgVals]
        /\ mask \in (SUBSET (1..NPix)) \ {{}}
Next == UNCHANGED <<img, bg, mask>>
\* background-corrected values under the mask (integers, no uint8 wrap-around)
Under == SelectSeq([i \in 1..NPix |-> IF i \in mask THEN img[i] - bg[i] ELSE 9999],
                   LAMBDA v : v # 9999)
RECURSIVE Sum(_), SumSq(_)
Sum(s) == IF s = <<>> THEN 0 ELSE Head(s) + Sum(Tail(s))
SumSq(s) == IF s = <<>> THEN 0 ELSE Head(s) * Head(s) + SumSq(Tail(s))
Rank(s, i) == Cardinality({j \in 1..Len(s) : s[j] < s[i] \/ (s[j] = s[i] /\ j < i)}) + 1
Sorted(s) == [k \in 1..Len(s) |-> s[CHOOSE i \in 1..Len(s) : Rank(s, i) = k]]
Mean == Norm(Sum(Under), Len(Under))
Variance == Norm(Len(Under) * SumSq(Under) - Sum(Under) * Sum(Under), Len(Under) * Len(Under))
\* numpy's default percentile: position (n-1)*p/100 between order statistics
Perc(p) == LET s == Sorted(Under)
               n == Len(s)
               num == (n - 1) * p             \* position * 100
               lo == num \div 100
               frac == num % 100              \* /100
           IN  IF lo + 1 >= n THEN FromInt(s[n])
               ELSE Norm(s[lo + 1] * (100 - frac) + s[lo + 2] * frac, 100)
Emit == PrintT(<<"H", ToJson([img |-> img, bg |-> bg, mask |-> mask, mean |-> Mean,
                              variance |-> Variance, p10 |-> Perc(10), p90 |-> Perc(90)])>>)
=============================================================================
