--------------------------- MODULE PolygonRegistrySpec ---------------------------
(***************************************************************************)
(* Beyond the listed properties (X02): the registry of polygon filters.    *)
(*                                                                         *)
(* Every polygon filter instance is registered under an integer            *)
(* identifier; datasets refer to filters by identifier, so identifiers of  *)
(* registered filters are unique at all times:                             *)
(*   - a new filter without a requested identifier gets an identifier no   *)
(*     registered filter has (the counter is above every identifier in     *)
(*     use);                                                               *)
(*   - a requested identifier that is in use is replaced by a free one     *)
(*     (with a warning) - loading a file into a non-empty registry never   *)
(*     takes a registered filter's identifier and never unregisters one;   *)
(*   - remove(u) unregisters exactly the filter with identifier u;         *)
(*   - clear_all_filters() empties the registry and restarts the counter.  *)
(* Filters are told apart by name tokens.                                  *)
(***************************************************************************)
EXTENDS Integers, Sequences, FiniteSets, TLC, Json

CONSTANTS MaxId,       \* requested identifiers are 0..MaxId
          MaxDepth

VARIABLES live,        \* sequence of [id, tok] in registration order
          counter,     \* next identifier given away
          nextTok,
          saved,       \* content of the .poly file: sequence of [id, tok]
          h

rvars == <<live, counter, nextTok, saved, h>>

Ids(s) == {s[i].id : i \in 1..Len(s)}
Max(a, b) == IF a > b THEN a ELSE b

\* registering a filter under requested identifier u (-1: none requested)
Given(s, c, u) == IF u = -1 THEN c
                  ELSE IF u \in Ids(s) THEN Max(c, u + 1) ELSE u
Reg(s, c, u, t) == [live |-> Append(s, [id |-> Given(s, c, u), tok |-> t]),
                    counter |-> Max(c, Given(s, c, u) + 1)]

Rec(step) == [step |-> step,
              obs |-> [live |-> live', counter |-> counter']]

RInit == live = <<>> /\ counter = 0 /\ nextTok = 1 /\ saved = <<>> /\ h = <<>>

Create(u) ==
    /\ LET r == Reg(live, counter, u, nextTok) IN
       live' = r.live /\ counter' = r.counter
    /\ nextTok' = nextTok + 1 /\ UNCHANGED saved
    /\ h' = Append(h, Rec([a |-> "create", u |-> u, tok |-> nextTok]))

\* pf.copy(): a new filter without requested identifier
Copy(i) ==
    /\ i \in 1..Len(live)
    /\ LET r == Reg(live, counter, -1, nextTok) IN
       live' = r.live /\ counter' = r.counter
    /\ nextTok' = nextTok + 1 /\ UNCHANGED saved
    /\ h' = Append(h, Rec([a |-> "copy", i |-> i, tok |-> nextTok]))

Remove(u) ==
    /\ live' = SelectSeq(live, LAMBDA e : e.id # u)
    /\ UNCHANGED <<counter, nextTok, saved>>
    /\ h' = Append(h, Rec([a |-> "remove", u |-> u]))

ClearAll ==
    /\ live' = <<>> /\ counter' = 0
    /\ UNCHANGED <<nextTok, saved>>
    /\ h' = Append(h, Rec([a |-> "clear"]))

SaveAll ==
    /\ Len(live) > 0 /\ saved' = live
    /\ UNCHANGED <<live, counter, nextTok>>
    /\ h' = Append(h, Rec([a |-> "save"]))

RECURSIVE Import(_, _, _)
Import(s, c, f) ==
    IF f = <<>> THEN [live |-> s, counter |-> c]
    ELSE LET r == Reg(s, c, Head(f).id, Head(f).tok)
         IN  Import(r.live, r.counter, Tail(f))

ImportAll ==
    /\ saved # <<>>
    /\ LET r == Import(live, counter, saved) IN
       live' = r.live /\ counter' = r.counter
    /\ UNCHANGED <<nextTok, saved>>
    /\ h' = Append(h, Rec([a |-> "import"]))

RNext ==
    \/ \E u \in -1..MaxId : Create(u)
    \/ \E i \in 1..2 : Copy(i)
    \/ \E u \in 0..(MaxId + 1) : Remove(u)
    \/ ClearAll \/ SaveAll \/ ImportAll

\* ------------------------------ properties ------------------------------
UniqueIds == \A i, j \in 1..Len(live) : i # j => live[i].id # live[j].id
CounterAbove == \A i \in 1..Len(live) : live[i].id < counter
\* registering never takes an identifier in use and never unregisters a filter
RegisterKeeps ==
    [][h'[Len(h')].step.a \in {"create", "copy", "import"} =>
          /\ Len(live') >= Len(live)
          /\ SubSeq(live', 1, Len(live)) = live
          /\ \A k \in (Len(live) + 1)..Len(live') : live'[k].id \notin Ids(live)]_rvars
RemoveExact ==
    [][h'[Len(h')].step.a = "remove" =>
          Ids(live') = Ids(live) \ {h'[Len(h')].step.u}]_rvars

Emit == (Len(h) = MaxDepth) => PrintT(<<"H", ToJson(h)>>)
HCon == Len(h) <= MaxDepth /\ Emit
=============================================================================
