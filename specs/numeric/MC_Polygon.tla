-------------------------------- MODULE MC_Polygon --------------------------------
EXTENDS PolygonSpec, TLC, Json
\* one line per polygon: its vertices, the off-boundary points, those inside
Emit == PrintT(<<"H", ToJson([poly |-> poly,
                              inside |-> {p \in Free(poly) : SpecInside(poly, p)},
                              boundary |-> {p \in Points : OnBoundary(poly, p)}])>>)
=============================================================================
