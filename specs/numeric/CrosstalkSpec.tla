--------------------------------- MODULE CrosstalkSpec ---------------------------------
(* C18 (crosstalk): channel i of the measured signal is the true signal plus the      *)
(* spill-over ct_ji percent of every other channel j.  Spilled values are emitted     *)
(* times 100 (integers).  Law for the adapter: correcting the spilled signal gives    *)
(* the true signal back, for every channel subset.                                     *)
EXTENDS Integers, Sequences, TLC, Json
CONSTANTS Pcts, Sigs
VARIABLES ct, sig     \* ct[j][i]: percent of channel j seen in channel i; sig[i]
Init == /\ ct \in [1..3 -> [1..3 -> Pcts]] /\ sig \in [1..3 -> Sigs]
        /\ \A i \in 1..3 : ct[i][i] = 0
Next == UNCHANGED <<ct, sig>>
Spilled100(i) == 100 * sig[i] + ct[1][i] * sig[1] + ct[2][i] * sig[2] + ct[3][i] * sig[3]
Emit == PrintT(<<"H", ToJson([ct |-> ct, sig |-> sig,
                              spilled100 |-> [i \in 1..3 |-> Spilled100(i)]])>>)
=============================================================================
