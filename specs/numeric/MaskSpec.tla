--------------------------------- MODULE MaskSpec ---------------------------------
(***************************************************************************)
(* C18 (contours): all connected, hole-free masks inside a W x H window.   *)
(* The state space IS the set of masks: Init is one pixel, Grow adds a     *)
(* pixel that is 4-adjacent to the mask, so the reachable states are       *)
(* exactly the 4-connected subsets of the window.  A mask is hole-free iff *)
(* every background cell of the padded window is 4-connected to the frame  *)
(* (the notion scipy's binary_fill_holes uses).  The law the adapter       *)
(* checks on the real code: marking the pixels of the extracted contour    *)
(* and filling holes reproduces the mask, and every contour point is a     *)
(* boundary pixel of the mask.  Start point and orientation are free.      *)
(***************************************************************************)
EXTENDS Integers, FiniteSets, Sequences, TLC, Json

CONSTANTS W, H

VARIABLES mask     \* set of <<x, y>> with x in 1..W, y in 1..H

Cells == (1..W) \X (1..H)
Adj4(c) == {<<c[1] + 1, c[2]>>, <<c[1] - 1, c[2]>>, <<c[1], c[2] + 1>>, <<c[1], c[2] - 1>>}

Init == \E c \in Cells : mask = {c}
Grow == \E c \in Cells \ mask : Adj4(c) \cap mask # {} /\ mask' = mask \cup {c}
Next == Grow

\* background of the window padded by one cell; flood fill from the frame
Padded == (0..(W + 1)) \X (0..(H + 1))
Frame == {c \in Padded : c[1] \in {0, W + 1} \/ c[2] \in {0, H + 1}}
RECURSIVE Flood(_)
Flood(S) == LET nxt == S \cup {c \in Padded \ mask : Adj4(c) \cap S # {}}
            IN  IF nxt = S THEN S ELSE Flood(nxt)
HoleFree == Flood(Frame) = Padded \ mask

\* boundary pixels: mask pixels with a background 8-neighbour
Adj8(c) == {<<c[1] + dx, c[2] + dy>> : dx \in {-1, 0, 1}, dy \in {-1, 0, 1}} \ {c}
Boundary == {c \in mask : Adj8(c) \ mask # {}}

Emit == HoleFree => PrintT(<<"H", ToJson([mask |-> mask, boundary |-> Boundary])>>)
Con == Emit
=============================================================================
