--------------------------------- MODULE VolumeSpec ---------------------------------
(* C18 (volume of revolution): the sum of truncated cones over a profile (r_i, z_i)  *)
(* with integer coordinates is (pi/3) * K with the integer                           *)
(*   K = sum (z_{i+1} - z_i) * (r_i^2 + r_i r_{i+1} + r_{i+1}^2)  (closed chain)     *)
(* Laws: reversing the profile flips the sign; scaling all coordinates by s          *)
(* multiplies K by s^3.                                                              *)
EXTENDS Integers, Sequences, TLC, Json
CONSTANTS MaxLen, Vals
VARIABLES prof       \* sequence of <<r, z>>
Nx(P, i) == IF i = Len(P) THEN 1 ELSE i + 1
RECURSIVE KSum(_, _)
KSum(P, i) == IF i > Len(P) THEN 0
              ELSE (P[Nx(P, i)][2] - P[i][2])
                   * (P[i][1] * P[i][1] + P[i][1] * P[Nx(P, i)][1]
                      + P[Nx(P, i)][1] * P[Nx(P, i)][1])
                   + KSum(P, i + 1)
K(P) == KSum(P, 1)
Reverse(P) == [i \in 1..Len(P) |-> P[Len(P) + 1 - i]]
Scale(P, s) == [i \in 1..Len(P) |-> <<s * P[i][1], s * P[i][2]>>]
Init == prof \in UNION {[1..k -> Vals \X Vals] : k \in 3..MaxLen}
Next == UNCHANGED prof
SignFlips == K(Reverse(prof)) = -K(prof)
CubicScaling == K(Scale(prof, 2)) = 8 * K(prof) /\ K(Scale(prof, 3)) = 27 * K(prof)
Emit == PrintT(<<"H", ToJson([prof |-> prof, k |-> K(prof)])>>)
=============================================================================
