-------------------------------- MODULE PolygonSpec --------------------------------
(***************************************************************************)
(* C15: polygon filters classify points by exact even-odd containment.     *)
(*                                                                         *)
(* All coordinates are doubled integers: polygon vertices lie on the       *)
(* integer grid 0..G-1 (doubled: even numbers), query points on the        *)
(* half-integer lattice -1/2..G-1/2 and on the integer lattice (points     *)
(* level with vertices and horizontal edges).  A point is on the boundary  *)
(* iff it lies on a closed edge; such points are outside the property.     *)
(*                                                                         *)
(* SpecInside is the mathematical definition: the parity of the number of  *)
(* proper crossings of a ray from the point with the boundary.  The ray    *)
(* has direction (K, 1) with K larger than the doubled grid, so that it    *)
(* never passes through a vertex (no lattice point other than the origin   *)
(* of the ray lies on its line inside the grid); every crossing is proper  *)
(* and all tests are sign tests of integer cross products.                 *)
(* ImplInside is the half-open rule of skimage's point_in_polygon with     *)
(* the division replaced by an exact cross-multiplication.                 *)
(***************************************************************************)
EXTENDS Integers, Sequences, FiniteSets

CONSTANTS G,          \* grid size: vertices in (0..G-1)^2
          MinV, MaxV  \* polygons have MinV..MaxV vertices

VARIABLES poly        \* sequence of <<x, y>> (doubled coordinates)

K == 4 * G + 3
Grid == {<<2 * i, 2 * j>> : i \in 0..(G - 1), j \in 0..(G - 1)}
Points == {<<i, j>> : i \in (-1)..(2 * G - 1), j \in (-1)..(2 * G - 1)}

Nxt(P, i) == IF i = Len(P) THEN 1 ELSE i + 1
Cross(ux, uy, vx, vy) == ux * vy - uy * vx
Min(a, b) == IF a < b THEN a ELSE b
Max(a, b) == IF a > b THEN a ELSE b

OnEdge(a, b, p) ==
    /\ Cross(b[1] - a[1], b[2] - a[2], p[1] - a[1], p[2] - a[2]) = 0
    /\ Min(a[1], b[1]) <= p[1] /\ p[1] <= Max(a[1], b[1])
    /\ Min(a[2], b[2]) <= p[2] /\ p[2] <= Max(a[2], b[2])
OnBoundary(P, p) == \E i \in 1..Len(P) : OnEdge(P[i], P[Nxt(P, i)], p)

\* proper crossing of the ray p + t (K, 1), t > 0, with the edge a -> b
Crosses(a, b, p) ==
    LET sa == K * (a[2] - p[2]) - (a[1] - p[1])
        sb == K * (b[2] - p[2]) - (b[1] - p[1])
        num == Cross(a[1] - p[1], a[2] - p[2], b[1] - a[1], b[2] - a[2])
        den == K * (b[2] - a[2]) - (b[1] - a[1])
    IN  /\ (sa > 0) # (sb > 0)
        /\ (num > 0) = (den > 0)
SpecInside(P, p) ==
    Cardinality({i \in 1..Len(P) : Crosses(P[i], P[Nxt(P, i)], p)}) % 2 = 1

\* the half-open rule (edge from vertex j = previous to vertex i)
ImplCrosses(vi, vj, p) ==
    LET D == vj[2] - vi[2]
        lhs == (p[1] - vi[1]) * D
        rhs == (vj[1] - vi[1]) * (p[2] - vi[2])
    IN  /\ \/ (vi[2] <= p[2] /\ p[2] < vj[2])
           \/ (vj[2] <= p[2] /\ p[2] < vi[2])
        /\ IF D > 0 THEN lhs < rhs ELSE lhs > rhs
ImplInside(P, p) ==
    Cardinality({i \in 1..Len(P) :
                    ImplCrosses(P[i], P[IF i = 1 THEN Len(P) ELSE i - 1], p)}) % 2 = 1

Init == poly \in UNION {[1..k -> Grid] : k \in MinV..MaxV}
Next == UNCHANGED poly

Free(P) == {p \in Points : ~OnBoundary(P, p)}

\* the implementation's rule is the mathematical definition off the boundary
ImplIsEvenOdd == \A p \in Free(poly) : ImplInside(poly, p) = SpecInside(poly, p)

\* independence of starting vertex, orientation, repeated closing vertex
Shift(P) == [i \in 1..Len(P) |-> P[Nxt(P, i)]]
Reverse(P) == [i \in 1..Len(P) |-> P[Len(P) + 1 - i]]
CloseDup(P) == Append(P, P[1])
Invariances ==
    \A p \in Free(poly) :
        /\ SpecInside(Shift(poly), p) = SpecInside(poly, p)
        /\ SpecInside(Reverse(poly), p) = SpecInside(poly, p)
        /\ SpecInside(CloseDup(poly), p) = SpecInside(poly, p)
        /\ ImplInside(Shift(poly), p) = ImplInside(poly, p)
        /\ ImplInside(Reverse(poly), p) = ImplInside(poly, p)
        /\ ImplInside(CloseDup(poly), p) = ImplInside(poly, p)
=============================================================================
