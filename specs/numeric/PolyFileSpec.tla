-------------------------------- MODULE PolyFileSpec --------------------------------
(* C15, persistence: saving a set of polygon filters to one .poly file and loading  *)
(* it into an empty registry yields the same filters (axes, inversion, name,       *)
(* identifier, vertices).  A case is a sequence of filter descriptors; the expected *)
(* result of Load(Save(F)) is F itself.                                             *)
EXTENDS Integers, Sequences, FiniteSets, TLC, Json

CONSTANTS MaxFilters, Shapes, NameClasses, Ids

VARIABLES fs      \* sequence of [shape, inverted, name, id, swapaxes]

Descr == [shape : Shapes, inverted : BOOLEAN, name : NameClasses, id : Ids,
          swapaxes : BOOLEAN]
Init == /\ fs \in UNION {[1..k -> Descr] : k \in 1..MaxFilters}
        /\ \A i, j \in 1..Len(fs) : i # j => fs[i].id # fs[j].id
Next == UNCHANGED fs
RoundTrip(F) == F          \* the specification: nothing is lost or altered
Emit == PrintT(<<"H", ToJson([saved |-> fs, loaded |-> RoundTrip(fs)])>>)
=============================================================================
