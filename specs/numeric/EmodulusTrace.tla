--------------------------------- MODULE EmodulusTrace ---------------------------------
(* C05, code -> spec: laws between paired calls on the built-in look-up tables.  A      *)
(* record holds two results for the same events as integers (micro-kPa, -1 = NaN) and   *)
(* the law that relates them: "equal" (batch split, per-event vs global temperature,    *)
(* joint geometric rescaling, repeated call, pixel size given vs. deformation reduced   *)
(* by the published pixelation delta) or "double" (viscosity or flow rate x 2).         *)
EXTENDS Integers, Sequences, TLC, Json, IOUtils
Traces == JsonDeserialize(IOEnv.TRACE_FILE)
VARIABLES tid, done
Abs(x) == IF x < 0 THEN -x ELSE x
PairOK(law, a, b) ==
    IF a = -1 \/ b = -1 THEN a = b                 \* same NaN set
    ELSE IF law = "equal" THEN Abs(a - b) <= 1
    ELSE Abs(2 * a - b) <= 2                        \* "double"
Verdict(r) ==
    IF r.raised THEN "raised"
    ELSE IF Len(r.a) # Len(r.b) THEN "length"
    ELSE IF \E i \in 1..Len(r.a) : ~PairOK(r.law, r.a[i], r.b[i]) THEN "law-violated"
    ELSE IF r.inputs_modified THEN "inputs-modified"
    ELSE "ok"
TInit == tid \in 1..Len(Traces) /\ done = FALSE
TStep == ~done /\ done' = TRUE /\ UNCHANGED tid
Report ==
    done =>
      IF Verdict(Traces[tid]) = "ok"
      THEN PrintT(<<"OK", ToJson([tid |-> tid])>>)
      ELSE PrintT(<<"REJ", ToJson([tid |-> tid, line |-> 1, why |-> Verdict(Traces[tid])])>>)
=============================================================================
