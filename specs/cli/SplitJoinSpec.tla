--------------------------------- MODULE SplitJoinSpec ---------------------------------
(***************************************************************************)
(* C09: split partitions and join concatenates events without loss or      *)
(* reordering.                                                             *)
(*                                                                         *)
(* A measurement is [n events, feature set, acquisition date, time tick    *)
(* (half seconds after 12:00:00, so fractional seconds occur), run index]. *)
(* Event j of input i is the token 100 i + j.                              *)
(*  Split(n, size): consecutive slices of at most `size` events.           *)
(*  Join(inputs in the given order): events concatenated in chronological  *)
(*  order of (date, time), ties in the given order - or, where run indices *)
(*  differ, by ascending numeric run index (the property admits both);     *)
(*  features = intersection; time/frame continued by the offset to the     *)
(*  first input (frames: the offset in seconds times the frame rate of the *)
(*  input the frames come from - every input has a frame rate of its own). *)
(***************************************************************************)
EXTENDS Integers, Sequences, FiniteSets, TLC, Json

CONSTANTS MaxInputs, Sizes, FeatSets, Ticks, Dates, RunIdx

VARIABLES mode, inputs, splitN, splitSize

vars == <<mode, inputs, splitN, splitSize>>

Input == [n : Sizes, feats : FeatSets, date : Dates, tick : Ticks, run : RunIdx]

Init ==
    \/ /\ mode = "join" /\ splitN = 0 /\ splitSize = 0
       /\ inputs \in UNION {[1..k -> Input] : k \in 2..MaxInputs}
    \/ /\ mode = "split" /\ inputs = <<>>
       /\ splitN \in 1..7 /\ splitSize \in 1..9
Next == UNCHANGED vars

\* ------------------------------- split -------------------------------
NumParts == (splitN + splitSize - 1) \div splitSize
Part(k) == [j \in 1..(IF k * splitSize <= splitN THEN splitSize
                      ELSE splitN - (k - 1) * splitSize) |-> (k - 1) * splitSize + j]
Parts == [k \in 1..NumParts |-> Part(k)]
RECURSIVE Concat(_)
Concat(ss) == IF ss = <<>> THEN <<>> ELSE Head(ss) \o Concat(Tail(ss))
SplitIsPartition == mode = "split" =>
    /\ Concat(Parts) = [j \in 1..splitN |-> j]
    /\ \A k \in 1..NumParts : Len(Parts[k]) \in 1..splitSize

\* ------------------------------- join -------------------------------
Before(i, j) ==   \* input i is acquired strictly before input j
    \/ inputs[i].date < inputs[j].date
    \/ inputs[i].date = inputs[j].date /\ inputs[i].tick < inputs[j].tick
SameTime(i, j) == inputs[i].date = inputs[j].date /\ inputs[i].tick = inputs[j].tick
\* position of input i in the output under tie rule `byRun`
Pos(i, byRun) ==
    1 + Cardinality({j \in 1..Len(inputs) :
          \/ Before(j, i)
          \/ SameTime(i, j) /\ (IF byRun /\ inputs[i].run # inputs[j].run
                                THEN inputs[j].run < inputs[i].run ELSE j < i)})
Order(byRun) == [p \in 1..Len(inputs) |-> CHOOSE i \in 1..Len(inputs) : Pos(i, byRun) = p]
Tokens(i) == [j \in 1..inputs[i].n |-> 100 * i + j]
Joined(byRun) == Concat([p \in 1..Len(inputs) |-> Tokens(Order(byRun)[p])])
CommonFeats == {f \in UNION FeatSets : \A i \in 1..Len(inputs) : f \in inputs[i].feats}
\* offset of input i to the first input of the output, in half seconds (same date only)
Offset(i, byRun) == LET first == Order(byRun)[1] IN inputs[i].tick - inputs[first].tick

Emit ==
    IF mode = "split"
    THEN PrintT(<<"H", ToJson([mode |-> "split", n |-> splitN, size |-> splitSize,
                               parts |-> Parts])>>)
    ELSE PrintT(<<"H", ToJson([mode |-> "join", inputs |-> inputs,
                               orders |-> {Order(TRUE), Order(FALSE)},
                               events |-> {Joined(TRUE), Joined(FALSE)},
                               feats |-> CommonFeats])>>)
=============================================================================
