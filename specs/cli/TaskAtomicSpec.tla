--------------------------------- MODULE TaskAtomicSpec ---------------------------------
(***************************************************************************)
(* C10: command-line tasks never leave a partial file at the output path.  *)
(*                                                                         *)
(* The file system holds, for each requested output j, the output path     *)
(* OUT_j and the temporary path TEMP_j.  A path is absent, partial (being  *)
(* written or abandoned) or complete (every planned write to it was done   *)
(* and it was closed).  A task is a program: a sequence of file operations *)
(* (the shapes of the six dclab tasks are given in Programs).  At every    *)
(* point the environment may make the next operation fail with an I/O      *)
(* error (the exception unwinds: open files are closed, nothing else is    *)
(* done) or kill the process (nothing is done at all).                     *)
(* Property: OUT_j is always absent or complete, and OUT_j only ever       *)
(* changes by the rename of a complete TEMP_j, which is the last operation *)
(* that touches j.                                                         *)
(***************************************************************************)
EXTENDS Integers, Sequences, FiniteSets, TLC

CONSTANTS Programs,   \* set of programs; a program is a sequence of [op, j]
          StaleOut    \* BOOLEAN: a stale file exists at OUT before the task starts

VARIABLES prog, pc, out, temp, ended

vars == <<prog, pc, out, temp, ended>>

Outs(p) == {p[i].j : i \in 1..Len(p)}

Init == /\ prog \in Programs /\ pc = 1 /\ ended = "running"
        /\ out = [j \in Outs(prog) |-> IF StaleOut THEN "stale" ELSE "absent"]
        /\ temp = [j \in Outs(prog) |-> "absent"]

\* is TEMP_j complete once it is closed at position i?  yes iff no later
\* write/reopen of TEMP_j follows in the program
NoLaterWrite(i, j) == \A k \in (i + 1)..Len(prog) :
    ~(prog[k].j = j /\ prog[k].op \in {"write", "reopen"})

Step ==
    /\ ended = "running" /\ pc <= Len(prog)
    /\ LET o == prog[pc].op
           j == prog[pc].j
       IN  CASE o = "unlink_out" -> out' = [out EXCEPT ![j] = "absent"] /\ UNCHANGED temp
             [] o = "unlink_temp" -> temp' = [temp EXCEPT ![j] = "absent"] /\ UNCHANGED out
             [] o = "open" -> temp' = [temp EXCEPT ![j] = "partial"] /\ UNCHANGED out
             [] o = "reopen" -> temp' = [temp EXCEPT ![j] = "partial"] /\ UNCHANGED out
             [] o = "write" -> temp[j] = "partial" /\ UNCHANGED <<temp, out>>
             [] o = "close" -> /\ temp' = [temp EXCEPT ![j] =
                                     IF NoLaterWrite(pc, j) THEN "complete" ELSE "partial"]
                               /\ UNCHANGED out
             [] o = "rename" -> /\ out' = [out EXCEPT ![j] = temp[j]]
                                /\ temp' = [temp EXCEPT ![j] = "absent"]
    /\ pc' = pc + 1
    /\ ended' = IF pc = Len(prog) THEN "done" ELSE "running"
    /\ UNCHANGED prog

\* the next operation raises an I/O error: unwinding closes open files
IOError == /\ ended = "running" /\ pc <= Len(prog)
           /\ ended' = "failed" /\ UNCHANGED <<prog, pc, out, temp>>
\* the process is killed before the next operation
Kill == /\ ended = "running"
        /\ ended' = "killed" /\ UNCHANGED <<prog, pc, out, temp>>

Next == Step \/ IOError \/ Kill
Spec == Init /\ [][Next]_vars

\* -------- the property --------
\* (a stale file is the complete result of an earlier run)
OutputAtomic == \A j \in DOMAIN out : out[j] \in {"absent", "complete", "stale"}
DoneMeansComplete == ended = "done" =>
    \A j \in DOMAIN out : out[j] = "complete" /\ temp[j] = "absent"
OnlyRenameCreatesOutput ==
    [][\A j \in DOMAIN out : (out'[j] # out[j] /\ out'[j] # "absent") =>
           (prog[pc].op = "rename" /\ prog[pc].j = j)]_vars
=============================================================================
