--------------------------------- MODULE MC_SplitJoin ---------------------------------
EXTENDS SplitJoinSpec
U == {"area_um", "bright_avg", "pos_x", "userdef1"}
AllFeatSets == SUBSET U
FewFeatSets == {U, U \ {"area_um", "bright_avg"}, U \ {"pos_x"}, {}}
=============================================================================
