--------------------------------- MODULE TaskAtomicTrace ---------------------------------
(* C10, code -> spec: the file operations a real task performs (recorded by the I/O      *)
(* interposer of the harness, fault-free run) are replayed as a program of               *)
(* TaskAtomicSpec: every recorded operation on a path with role TEMP_j / OUT_j becomes    *)
(* an operation of the program; operations that WRITE to an output path have no           *)
(* counterpart in the specification and reject the trace.  Then the specification's       *)
(* properties are evaluated along the recorded run with a failure injected at every       *)
(* position (IOError / Kill are always enabled in the spec): the invariant must hold      *)
(* in every prefix.                                                                       *)
EXTENDS Integers, Sequences, FiniteSets, TLC, Json, IOUtils

Traces == JsonDeserialize(IOEnv.TRACE_FILE)

VARIABLES tid, pc, out, temp, why
tvars == <<tid, pc, out, temp, why>>

Prog == Traces[tid].ops
Js == {Prog[i].j : i \in 1..Len(Prog)}
NoLaterWrite(i, j) == \A k \in (i + 1)..Len(Prog) :
    ~(Prog[k].j = j /\ Prog[k].op \in {"write", "reopen"})

TInit == /\ tid \in 1..Len(Traces) /\ pc = 1 /\ why = "ok"
         /\ out = [j \in Js |-> "absent"] /\ temp = [j \in Js |-> "absent"]

TStep ==
    /\ why = "ok" /\ pc <= Len(Prog)
    /\ LET o == Prog[pc].op
           j == Prog[pc].j
       IN  CASE o \in {"write_out", "open_out"} ->
                    why' = "writes-to-output-path" /\ UNCHANGED <<out, temp>>
             [] o = "unlink_out" -> out' = [out EXCEPT ![j] = "absent"]
                                    /\ UNCHANGED temp /\ why' = "ok"
             [] o = "unlink_temp" -> temp' = [temp EXCEPT ![j] = "absent"]
                                     /\ UNCHANGED out /\ why' = "ok"
             [] o \in {"open", "reopen"} -> temp' = [temp EXCEPT ![j] = "partial"]
                                            /\ UNCHANGED out /\ why' = "ok"
             [] o = "write" -> /\ UNCHANGED <<out, temp>>
                               /\ why' = IF temp[j] = "partial" THEN "ok"
                                         ELSE "write-to-closed-temp"
             [] o = "close" -> /\ temp' = [temp EXCEPT ![j] =
                                     IF NoLaterWrite(pc, j) THEN "complete" ELSE "partial"]
                               /\ UNCHANGED out /\ why' = "ok"
             [] o = "rename" -> /\ out' = [out EXCEPT ![j] = temp[j]]
                                /\ temp' = [temp EXCEPT ![j] = "absent"]
                                /\ why' = IF temp[j] = "complete" THEN "ok"
                                          ELSE "renames-incomplete-temp"
    /\ pc' = pc + 1 /\ UNCHANGED tid

\* a failure or kill at this very point would leave these files behind
AtomicHere == \A j \in Js : out[j] \in {"absent", "complete"}

Report ==
    /\ (why = "ok" /\ ~AtomicHere) =>
          PrintT(<<"REJ", ToJson([tid |-> tid, line |-> pc - 1, why |-> "partial-output-visible"])>>)
    /\ (why = "ok" /\ pc = Len(Prog) + 1 /\ AtomicHere
          /\ \A j \in Js : out[j] = "complete") =>
          PrintT(<<"OK", ToJson([tid |-> tid])>>)
    /\ (why = "ok" /\ pc = Len(Prog) + 1 /\ \E j \in Js : out[j] # "complete") =>
          PrintT(<<"REJ", ToJson([tid |-> tid, line |-> pc - 1, why |-> "output-not-complete-at-end"])>>)
    /\ (why # "ok") =>
          PrintT(<<"REJ", ToJson([tid |-> tid, line |-> pc - 1, why |-> why])>>)
=============================================================================
