--------------------------------- MODULE MC_TaskAtomic ---------------------------------
EXTENDS TaskAtomicSpec
Op(o, j) == [op |-> o, j |-> j]
\* compress / repack / condense / tdms2rtdc (one output): setup, write temp, close, rename
Single == <<Op("unlink_out", 1), Op("unlink_temp", 1), Op("open", 1), Op("write", 1),
            Op("write", 1), Op("close", 1), Op("rename", 1)>>
\* join: export to temp, close, re-open the temp in append mode, write, close, rename
Join == <<Op("unlink_out", 1), Op("unlink_temp", 1), Op("open", 1), Op("write", 1),
          Op("close", 1), Op("reopen", 1), Op("write", 1), Op("close", 1), Op("rename", 1)>>
\* split into two parts: all temps are written (and re-opened for the logs) before any rename
Split == <<Op("open", 1), Op("write", 1), Op("close", 1), Op("open", 2), Op("write", 2),
           Op("close", 2), Op("reopen", 1), Op("write", 1), Op("close", 1),
           Op("reopen", 2), Op("write", 2), Op("close", 2), Op("rename", 1), Op("rename", 2)>>
\* a broken variant (writes directly to the output path): must be rejected by TLC
Direct == <<Op("unlink_out", 1), Op("open", 1), Op("rename", 1), Op("reopen", 1),
            Op("write", 1), Op("close", 1)>>
Good == {Single, Join, Split}
Bad == {Direct}
=============================================================================
