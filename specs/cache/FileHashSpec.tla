------------------------------ MODULE FileHashSpec ------------------------------
(***************************************************************************)
(* The file-hash cache (C17, dclab.util.hashfile): the hash returned for a *)
(* path is the hash of the file's *current* content, however often the     *)
(* file was modified and hashed before.  Content c of file p is the token  *)
(* <<c, size class>>; H is injective on contents.                          *)
(***************************************************************************)
EXTENDS Integers, Sequences

CONSTANTS Files, Contents

VARIABLES content, last, h

FInit == /\ content = [p \in Files |-> CHOOSE c \in Contents : \A d \in Contents : c <= d]
         /\ last = [a |-> "init"]
         /\ h = <<>>

Write(p, c) == /\ content[p] # c
               /\ content' = [content EXCEPT ![p] = c]
               /\ last' = [a |-> "write", p |-> p, c |-> c]

Hash(p) == /\ UNCHANGED content
           /\ last' = [a |-> "hash", p |-> p, ret |-> content[p]]

FNext == /\ \/ \E p \in Files, c \in Contents : Write(p, c)
            \/ \E p \in Files : Hash(p)
         /\ h' = Append(h, last')
=============================================================================
