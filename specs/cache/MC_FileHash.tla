------------------------------ MODULE MC_FileHash ------------------------------
EXTENDS FileHashSpec, TLC, Json
CONSTANT MaxDepth
Emit == (Len(h) = MaxDepth) => PrintT(<<"H", ToJson(h)>>)
HCon == Len(h) <= MaxDepth /\ Emit
\* a hash is only ever the current content
HashCurrent == last.a = "hash" => last.ret = content[last.p]
=============================================================================
