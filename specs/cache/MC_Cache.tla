-------------------------------- MODULE MC_Cache --------------------------------
(* Model-checking instance for CacheSpec / CacheImpl (C17): an adversarial pool. *)
EXTENDS CacheImpl, TLC, Json

CONSTANTS MaxDepth

VARIABLE h

F8 == 1008   \* dtype tokens
F4 == 1004
F8B == 2008  \* eight-byte floats in the opposite byte order
NoneTok == 1000

Arr(b, dt, sh) == [kind |-> "arr", bytes |-> b, dtype |-> dt, shape |-> sh]
Oth(s) == [kind |-> "oth", str |-> s]

\* bytes: one "byte" stands for four real bytes; an f8 element takes two.
\* pool (x, y, xout, yout):
\*  1: x = 2 elems, y = 2 elems, xout = 1, yout = 1             (f8)
\*  2: x = 1, y = 1, xout = 2, yout = 2   -- same bytes as 1, split differently
\*  3: x = 3 elems, y = 3 elems, no xout/yout
\*  4: as 3 but f4 with the same bytes (6 elements each)
\*  5: as 3 but shape (3, 1)  -- same bytes, other shape
\*  6: as 3, x passed as a strided view (same values)
\*  7: as 1 with other values
\*  8: as 1, xout/yout passed by keyword (replay schedules only)
\*  9: arrays + scalars 1, 0, False      (str() atoms: digit tokens 2000+d, False = 1002)
\* 10: arrays + scalars 10, False        -- same concatenated str() as 9
\* 13/14 (replay schedules only): arrays + the keyword arguments samples,
\*     remove_invalid, ret_idx given in different orders with different
\*     bindings whose values, read in the order given, coincide
\* 11: x = 3 elems, y = 3 elems of other bytes                  (f8)
\* 12: as 11, the same bytes in the opposite byte order (same shape and item
\*     size, other values)
\* 15: x, y square two-dimensional arrays (2 x 2 elements)
\* 16: their transposes (replay: views of the same memory): same shape, item
\*     size and memory block - other content, read in index order
MCPool == (1..7) \cup {9, 10, 11, 12}
MCArgs(p) ==
    CASE p = 1 -> <<Arr(<<1,2,3,4>>, F8, <<2>>), Arr(<<5,6,7,8>>, F8, <<2>>),
                    Arr(<<9,10>>, F8, <<1>>), Arr(<<11,12>>, F8, <<1>>)>>
      [] p = 2 -> <<Arr(<<1,2>>, F8, <<1>>), Arr(<<3,4>>, F8, <<1>>),
                    Arr(<<5,6,7,8>>, F8, <<2>>), Arr(<<9,10,11,12>>, F8, <<2>>)>>
      [] p = 3 -> <<Arr(<<1,2,3,4,5,6>>, F8, <<3>>), Arr(<<7,8,9,10,11,12>>, F8, <<3>>),
                    Oth(<<NoneTok>>), Oth(<<NoneTok>>)>>
      [] p = 4 -> <<Arr(<<1,2,3,4,5,6>>, F4, <<6>>), Arr(<<7,8,9,10,11,12>>, F4, <<6>>),
                    Oth(<<NoneTok>>), Oth(<<NoneTok>>)>>
      [] p = 5 -> <<Arr(<<1,2,3,4,5,6>>, F8, <<3, 1>>), Arr(<<7,8,9,10,11,12>>, F8, <<3, 1>>),
                    Oth(<<NoneTok>>), Oth(<<NoneTok>>)>>
      [] p = 6 -> <<Arr(<<1,2,3,4,5,6>>, F8, <<3>>), Arr(<<7,8,9,10,11,12>>, F8, <<3>>),
                    Oth(<<NoneTok>>), Oth(<<NoneTok>>)>>
      [] p = 7 -> <<Arr(<<21,22,23,24>>, F8, <<2>>), Arr(<<25,26,27,28>>, F8, <<2>>),
                    Arr(<<29,30>>, F8, <<1>>), Arr(<<31,32>>, F8, <<1>>)>>
      [] p = 9 -> <<Arr(<<1,2,3,4,5,6>>, F8, <<3>>), Arr(<<7,8,9,10,11,12>>, F8, <<3>>),
                    Oth(<<2001>>), Oth(<<2000>>), Oth(<<1002>>)>>
      [] p = 10 -> <<Arr(<<1,2,3,4,5,6>>, F8, <<3>>), Arr(<<7,8,9,10,11,12>>, F8, <<3>>),
                    Oth(<<2001, 2000>>), Oth(<<1002>>)>>
      [] p = 11 -> <<Arr(<<41,42,43,44,45,46>>, F8, <<3>>), Arr(<<47,48,49,50,51,52>>, F8, <<3>>),
                     Oth(<<NoneTok>>), Oth(<<NoneTok>>)>>
      [] p = 12 -> <<Arr(<<41,42,43,44,45,46>>, F8B, <<3>>), Arr(<<47,48,49,50,51,52>>, F8B, <<3>>),
                     Oth(<<NoneTok>>), Oth(<<NoneTok>>)>>
      \* (bound parameters in signature order: samples, remove_invalid, ret_idx)
      [] p = 13 -> <<Arr(<<1,2,3,4,5,6>>, F8, <<3>>), Arr(<<7,8,9,10,11,12>>, F8, <<3>>),
                     Oth(<<2007>>), Oth(<<1001>>), Oth(<<1002>>)>>
      [] p = 14 -> <<Arr(<<1,2,3,4,5,6>>, F8, <<3>>), Arr(<<7,8,9,10,11,12>>, F8, <<3>>),
                     Oth(<<2007>>), Oth(<<1002>>), Oth(<<1001>>)>>
      [] p = 15 -> <<Arr(<<61,62,63,64,65,66,67,68>>, F8, <<2, 2>>),
                     Arr(<<71,72,73,74,75,76,77,78>>, F8, <<2, 2>>),
                     Oth(<<NoneTok>>), Oth(<<NoneTok>>)>>
      [] p = 16 -> <<Arr(<<61,62,65,66,63,64,67,68>>, F8, <<2, 2>>),
                     Arr(<<71,72,75,76,73,74,77,78>>, F8, <<2, 2>>),
                     Oth(<<NoneTok>>), Oth(<<NoneTok>>)>>
      [] p = 8 -> <<Arr(<<1,2,3,4>>, F8, <<2>>), Arr(<<5,6,7,8>>, F8, <<2>>),
                    Arr(<<9,10>>, F8, <<1>>), Arr(<<11,12>>, F8, <<1>>)>>
\* semantic identity: memory layout is irrelevant (6 = 3)
MCSem(p) == IF p = 6 THEN MCArgs(3) ELSE IF p = 8 THEN MCArgs(1) ELSE MCArgs(p)
MCFuncs == {1, 2}
\* schedules for the replay use all four memoised functions and the keyword
\* variant (pool member 8 = member 1 with xout/yout passed by keyword)
HFuncs == 1..4
HPool == 1..10
\* second replay family: the byte-order pair with the plain/f4 members
HPool2 == {3, 4, 11, 12}
\* third replay family: keyword arguments in different orders
HPool3 == {9, 13, 14}
\* fourth replay family: a square array and its transpose
HPool4 == {3, 15, 16}

Depth == TLCGet("level") <= MaxDepth

\* history enumeration (spec -> code): schedules of calls
HInit == SpecInit /\ h = <<>> /\ store = 0 /\ fifo = 0 /\ out = 0
HNext == /\ \E f \in Funcs, p \in Pool : Call(f, p)
         /\ h' = Append(h, [f |-> last'.f, p |-> last'.p])
         /\ UNCHANGED <<store, fifo, out>>
Emit == (Len(h) = MaxDepth) => PrintT(<<"H", ToJson(h)>>)
HCon == Len(h) <= MaxDepth /\ Emit

MCImplInit == ImplInit /\ h = <<>>
MCImplNext == ImplNext /\ UNCHANGED h
=============================================================================
