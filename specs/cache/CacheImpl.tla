-------------------------------- MODULE CacheImpl --------------------------------
(***************************************************************************)
(* Implementation-shaped specification of dclab.cached.Cache (C17):        *)
(* one global dictionary keyed by a digest over the argument bytes, a FIFO *)
(* list of keys, capacity M.  An argument is an array [bytes, dtype,       *)
(* shape, contiguous] or another object [str].  KeyTyped = FALSE is the    *)
(* key as found at the pinned commit: the bare concatenation of the array  *)
(* bytes and str() of everything else (the digest is assumed injective on  *)
(* that byte string); TRUE adds dtype and shape per array, which also      *)
(* delimits the arguments, and a separator after every non-array argument  *)
(* (str() of a non-array argument is a sequence of character atoms).       *)
(* Atoms of a key are integers: bytes 0..255, other tokens >= 1000.        *)
(***************************************************************************)
EXTENDS CacheSpec

CONSTANTS M,            \* capacity (cached.MAX_SIZE)
          Args(_),      \* pool id -> sequence of argument descriptors
          KeyTyped,     \* repaired key
          Aliased       \* TRUE: a hit hands out the stored object itself

VARIABLES store,        \* set of [key, f, p, dirty]: retained results
          fifo,         \* sequence of keys in insertion order
          out           \* what the last call actually returned: [f, p, dirty]

ivars == <<last, store, fifo, out>>

RECURSIVE Concat(_)
Concat(ss) == IF ss = <<>> THEN <<>> ELSE Head(ss) \o Concat(Tail(ss))

\* atoms contributed by one argument
ArgKey(x) ==
    IF x.kind = "arr"
    THEN (IF KeyTyped THEN <<x.dtype>> \o x.shape \o <<1999>> ELSE <<>>) \o x.bytes
    ELSE x.str \o (IF KeyTyped THEN <<1998>> ELSE <<>>)   \* str() + separator

FuncTok(f) == 3000 + f
Key(f, p) == Concat([i \in 1..Len(Args(p)) |-> ArgKey(Args(p)[i])]) \o <<FuncTok(f)>>

Keys == {e.key : e \in store}
Entry(k) == CHOOSE e \in store : e.key = k

ImplInit == SpecInit /\ store = {} /\ fifo = <<>> /\ out = [f |-> 0, p |-> 0, dirty |-> FALSE]

ICall(f, p) ==
    LET k == Key(f, p) IN
    /\ Call(f, p)
    /\ IF k \in Keys
       THEN /\ out' = [f |-> Entry(k).f, p |-> Entry(k).p, dirty |-> Entry(k).dirty]
            /\ UNCHANGED <<store, fifo>>
       ELSE LET s1 == store \cup {[key |-> k, f |-> f, p |-> p, dirty |-> FALSE]}
                f1 == Append(fifo, k)
            IN  /\ out' = [f |-> f, p |-> p, dirty |-> FALSE]
                /\ IF Len(f1) > M
                   THEN /\ fifo' = Tail(f1)
                        /\ store' = {e \in s1 : e.key # Head(f1)}
                   ELSE /\ fifo' = f1 /\ store' = s1

\* in-place modification of the object returned last
IMutate ==
    /\ last.a = "call"
    /\ MutateReturned
    /\ store' = IF Aliased
                THEN {IF e.f = out.f /\ e.p = out.p THEN [e EXCEPT !.dirty = TRUE] ELSE e
                      : e \in store}
                ELSE store
    /\ UNCHANGED <<fifo, out>>

ImplNext == (\E f \in Funcs, p \in Pool : ICall(f, p)) \/ IMutate

\* --------------------------- what must hold ---------------------------
\* a call returns what a fresh computation returns (the property)
ReturnsFresh ==
    last.a = "call" => (~out.dirty /\ <<out.f, Sem(out.p)>> = last.ret)

\* internal consistency of dictionary and key list
FifoConsistent ==
    /\ Len(fifo) <= M
    /\ {fifo[i] : i \in 1..Len(fifo)} = Keys
    /\ Cardinality(Keys) = Len(fifo)
=============================================================================
