-------------------------------- MODULE CacheSpec --------------------------------
(***************************************************************************)
(* Property-level specification of dclab's memoisation (C17).              *)
(*                                                                         *)
(* A call is identified by the function and an element of the argument     *)
(* pool; Fresh(f, p) is what an undecorated computation returns and is     *)
(* injective on *semantically different* arguments (Sem(p): the values,    *)
(* dtypes and shapes - not the memory layout, not the passing style).      *)
(* The specification says: every call returns Fresh; nothing else.  It is  *)
(* silent about hits, misses, eviction and capacity.                       *)
(***************************************************************************)
EXTENDS Integers, Sequences, FiniteSets

CONSTANTS Funcs,       \* memoised functions
          Pool,        \* argument tuples (ids)
          Sem(_)       \* pool id -> semantic identity of the arguments

VARIABLES last         \* last call and what it must have returned

Fresh(f, p) == <<f, Sem(p)>>

SpecInit == last = [a |-> "init"]

Call(f, p) == last' = [a |-> "call", f |-> f, p |-> p, ret |-> Fresh(f, p)]

\* the caller modifies, in place, what the last call handed out
\* (only results obtained through the dataset interface are in scope)
MutateReturned == last' = [a |-> "mutate"]

SpecNext == (\E f \in Funcs, p \in Pool : Call(f, p)) \/ MutateReturned

Spec == SpecInit /\ [][SpecNext]_last
=============================================================================
