---------------------------- MODULE MC_HttpFileHist ----------------------------
(* History enumeration of HttpFileSpec for the spec -> code replay (C19).     *)
(* Every behaviour prefix of length <= MaxDepth is one state (history var h); *)
(* complete histories are printed as JSON with the expected observation of    *)
(* every step.  Two alphabets ("plans"): A = chunk-boundary oriented on one   *)
(* resource, B = many small resources incl. the empty one.                    *)
EXTENDS HttpFileSpec, TLC, Json

CONSTANTS HLens, MaxDepth

VARIABLE h

ASeekSets(l) == {0, 3, 4, 7, 8, 9, 12}
ASeekCurs == {-1}
ASeekEnds == {-2}
ASizes(l) == {0, 1, 4, 5, 9}

BSeekSets(l) == {0, 1, 4, 5, 6, 9}
BSeekCurs == {-1, 2}
BSeekEnds == {-3, 0, 1}
BSizes(l) == {0, 1, 2, 3, 11}

HInit == SpecInit /\ h = <<>>
HNext == SpecNext /\ h' = Append(h, last')
Emit == (Len(h) = MaxDepth) =>
            PrintT(<<"H", ToJson([len |-> len, h |-> h])>>)
HCon == Len(h) <= MaxDepth /\ Emit
=============================================================================
