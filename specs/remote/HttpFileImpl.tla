------------------------------ MODULE HttpFileImpl ------------------------------
(***************************************************************************)
(* Implementation-shaped specification of dclab.http_utils.HTTPFile:       *)
(* a transcription of read / read_range_cached / get_cache_chunk /         *)
(* download_range with an RFC 7233 server model.  One action per public    *)
(* call.  It refines HttpFileSpec iff the algorithm is right; the flags    *)
(* switch between the algorithm as found at the pinned commit (named       *)
(* deviations) and the repaired one.                                       *)
(*                                                                         *)
(* Byte i of the resource has value i; a byte that does not belong to the  *)
(* position it is stored for (error body, whole-file reply to an invalid   *)
(* range) is modelled as Junk.                                             *)
(***************************************************************************)
EXTENDS Integers, Sequences, FiniteSets

CONSTANTS Lens, SeekSets(_), SeekCurs, SeekEnds, Sizes(_),
          Configs,        \* set of [cs |-> chunk size, keep |-> keep_chunks]
          ClampStop,      \* TRUE: the read range is clamped to the length
          BreakFirst,     \* TRUE: no chunk is fetched once nothing is left
          EvictSafe,      \* TRUE: eviction never drops the requested chunk
          ReadAllWorks,   \* TRUE: read(-1) reads to the end
          ReadZeroStays   \* TRUE: read(0) leaves the position alone

VARIABLES len, pos, last, \* as in HttpFileSpec
          cfg,            \* [cs, keep], fixed in Init
          cache,          \* sequence of <<index, content>>, insertion order
          out             \* [ok, data]: bytes returned by the last read (ok = FALSE: raised)

ivars == <<len, pos, last, cfg, cache, out>>

Junk == -1

S == INSTANCE HttpFileSpec

CS == cfg.cs
Keep == cfg.keep

\* ---- server: GET with header Range: bytes=first-lastb  (RFC 7233) ----
\* syntactically invalid (lastb < first): header ignored, 200 + full body;
\* first >= len: 416 + an error body; else 206 with the bytes
ErrBodyLen == 3
Serve(first, lastb) ==
    IF lastb < first THEN [i \in 1..len |-> i - 1]
    ELSE IF first >= len THEN [i \in 1..ErrBodyLen |-> Junk]
    ELSE [i \in 1..(S!Min(lastb, len - 1) - first + 1) |-> first + i - 1]

\* the body stored for chunk idx; anything that is not the bytes idx*CS..
\* is junk as far as the reader is concerned
Download(idx) ==
    LET start == idx * CS
        stop  == S!Min((idx + 1) * CS, len)
        body  == Serve(start, stop - 1)
    IN  IF stop - 1 < start \/ start >= len
        THEN [i \in 1..Len(body) |-> Junk]
        ELSE body

Indices(c) == {c[i][1] : i \in 1..Len(c)}
Lookup(c, idx) == (CHOOSE i \in 1..Len(c) : c[i][1] = idx)

\* get_cache_chunk: returns the new cache and the chunk (ok = FALSE: KeyError)
GetChunk(c, idx) ==
    LET c1 == IF idx \in Indices(c) THEN c
              ELSE Append(c, <<idx, Download(idx)>>)
        \* as found: the first key that is not 0; repaired: never the
        \* requested chunk, chunk 0 only when nothing else can go
        nonzero == {i \in 1..Len(c1) :
                        c1[i][1] # 0 /\ (EvictSafe => c1[i][1] # idx)}
        evictable == IF nonzero # {} \/ ~EvictSafe THEN nonzero
                     ELSE {i \in 1..Len(c1) : c1[i][1] # idx}
        c2 == IF Len(c1) > Keep /\ evictable # {}
              THEN LET v == CHOOSE i \in evictable :
                                \A j \in evictable : i <= j
                   IN  SubSeq(c1, 1, v - 1) \o SubSeq(c1, v + 1, Len(c1))
              ELSE c1
    IN  IF idx \in Indices(c2)
        THEN [c |-> c2, ok |-> TRUE, chunk |-> c2[Lookup(c2, idx)][2]]
        ELSE [c |-> c2, ok |-> FALSE, chunk |-> <<>>]   \* KeyError

Slice(chunk, a, b) ==   \* python chunk[a:b] for a, b >= 0
    LET bb == S!Min(b, Len(chunk))
    IN  IF bb > a THEN SubSeq(chunk, a + 1, bb) ELSE <<>>

\* the loop of read_range_cached over the chunk indices
RECURSIVE Walk(_, _, _, _, _, _, _)
Walk(c, idx, idxStop, p, toread, stop, data) ==
    IF idx >= idxStop THEN [c |-> c, ok |-> TRUE, data |-> data]
    ELSE IF BreakFirst /\ toread = 0 THEN [c |-> c, ok |-> TRUE, data |-> data]
    ELSE LET g == GetChunk(c, idx)
             chunk == g.chunk
             cstart == p % CS
         IN  IF ~g.ok THEN [c |-> g.c, ok |-> FALSE, data |-> <<>>]
             ELSE IF toread = 0 THEN [c |-> g.c, ok |-> TRUE, data |-> data]
             ELSE IF cstart + toread >= CS
             THEN Walk(g.c, idx + 1, idxStop, p + (CS - cstart),
                       toread - (CS - cstart), stop,
                       data \o Slice(chunk, cstart, Len(chunk) + CS))
             ELSE LET cend == stop % CS
                  IN  Walk(g.c, idx + 1, idxStop, p + (cend - cstart),
                           toread - (cend - cstart), stop,
                           data \o Slice(chunk, cstart, cend))

ReadRange(c, start, stop0) ==
    LET stop == IF ClampStop THEN S!Min(stop0, S!Max(start, len)) ELSE stop0
    IN  IF stop < start
        THEN \* python: range(start//cs, stop//cs+1); toread < 0
             Walk(c, start \div CS, stop \div CS + 1, start, stop - start,
                  stop, <<>>)
        ELSE Walk(c, start \div CS, stop \div CS + 1, start, stop - start,
                  stop, <<>>)

ImplInit == /\ S!SpecInit
            /\ cfg \in Configs
            /\ cache = <<>>
            /\ out = [ok |-> TRUE, data |-> <<>>]

ISeek(w, o) == S!Seek(w, o) /\ UNCHANGED <<cfg, cache, out>>
ITell == S!Tell /\ UNCHANGED <<cfg, cache, out>>

IRead(n) ==
    LET r == ReadRange(cache, pos, pos + n)
    IN  /\ n >= 0
        /\ cache' = r.c
        /\ out' = [ok |-> r.ok, data |-> r.data]
        /\ pos' = IF n > 0 \/ ReadZeroStays THEN pos + n ELSE len
        /\ last' = [a |-> "read", n |-> n, ret |-> S!Bytes(pos, n),
                    pos |-> pos']
        /\ UNCHANGED <<len, cfg>>

IReadAll ==
    LET r == IF ReadAllWorks
             THEN ReadRange(cache, pos, S!Max(pos, len))
             ELSE ReadRange(cache, pos, pos - 1)
    IN  /\ cache' = r.c
        /\ out' = [ok |-> r.ok, data |-> r.data]
        /\ pos' = IF ReadAllWorks THEN S!Max(pos, len) ELSE len
        /\ last' = [a |-> "readall", ret |-> S!Rest(pos), pos |-> pos']
        /\ UNCHANGED <<len, cfg>>

ImplNext ==
    \/ \E o \in SeekSets(len) : ISeek(0, o)
    \/ \E o \in SeekCurs : ISeek(1, o)
    \/ \E o \in SeekEnds : ISeek(2, o)
    \/ ITell
    \/ \E n \in Sizes(len) : IRead(n)
    \/ IReadAll

ImplSpec == ImplInit /\ [][ImplNext]_ivars

\* ------------------------- what must hold -------------------------
Expected(ret) == [i \in 1..ret.n |-> ret.from + i - 1]

\* the bytes handed out are the bytes of the resource (the property)
BytesCorrect ==
    last.a \in {"read", "readall"} =>
        out.ok /\ out.data = Expected(last.ret)

\* at most Keep chunks are held after every operation (the property)
CacheBounded == Len(cache) <= Keep

\* internal consistency: no junk chunk is ever cached
NoJunkCached ==
    \A i \in 1..Len(cache) : \A j \in 1..Len(cache[i][2]) :
        cache[i][2][j] # Junk

\* every step of the implementation is a step of the property-level spec
RefinesSpec == S!Spec
=============================================================================
