------------------------------ MODULE HttpFileSpec ------------------------------
(***************************************************************************)
(* Property-level specification of dclab's HTTP file object (C19).         *)
(*                                                                         *)
(* The remote resource is a blob of `len` bytes; byte i has the value i,   *)
(* so a read result is fully described by [from, n]: the bytes             *)
(* from..from+n-1 (from is 0 when n = 0).  The specification is what the   *)
(* property states: every read returns exactly the bytes                   *)
(* [pos, min(pos+n, len)) of the resource.  It is silent about how many    *)
(* requests are made, which chunks are retained, and about the position    *)
(* after a read that hits the end of the resource (a file object stops at  *)
(* len, dclab advances by the requested size: both are accepted).          *)
(* The bound on the number of chunks held is an invariant of the           *)
(* implementation-level state and is stated in HttpFileImpl / checked by   *)
(* the adapter after every operation.                                      *)
(***************************************************************************)
EXTENDS Integers, Sequences

CONSTANTS Lens,          \* set of resource lengths explored
          SeekSets(_),   \* len -> offsets tried with whence = SEEK_SET
          SeekCurs,      \* offsets tried with whence = SEEK_CUR
          SeekEnds,      \* offsets tried with whence = SEEK_END
          Sizes(_)       \* len -> sizes tried with read(n), n >= 0

VARIABLES len,        \* length of the resource (fixed in Init)
          pos,        \* current position of the file object
          last        \* the last operation and what it must have returned

svars == <<len, pos, last>>

Min(a, b) == IF a < b THEN a ELSE b
Max(a, b) == IF a > b THEN a ELSE b

\* the bytes a read of n >= 0 bytes at position p must return
Bytes(p, n) ==
    LET stop == Min(p + n, len)
        cnt  == IF stop > p THEN stop - p ELSE 0
    IN  [from |-> IF cnt = 0 THEN 0 ELSE p, n |-> cnt]

\* bytes from p to the end of the resource
Rest(p) == Bytes(p, IF len > p THEN len - p ELSE 0)

SpecInit == /\ len \in Lens
            /\ pos = 0
            /\ last = [a |-> "init", pos |-> 0]

Seek(whence, off) ==
    LET np == CASE whence = 0 -> off
                [] whence = 1 -> pos + off
                [] whence = 2 -> len + off
    IN  /\ np >= 0
        /\ pos' = np
        /\ last' = [a |-> "seek", whence |-> whence, off |-> off, pos |-> np]
        /\ UNCHANGED len

Tell == /\ UNCHANGED <<pos, len>>
        /\ last' = [a |-> "tell", pos |-> pos]

\* read(n), n >= 0
Read(n) ==
    /\ n >= 0
    /\ pos' \in {pos + n, Min(pos + n, Max(pos, len))}
    /\ last' = [a |-> "read", n |-> n, ret |-> Bytes(pos, n), pos |-> pos']
    /\ UNCHANGED len

\* read() / read(-1): everything up to the end of the resource
ReadAll ==
    /\ pos' = Max(pos, len)
    /\ last' = [a |-> "readall", ret |-> Rest(pos), pos |-> pos']
    /\ UNCHANGED len

SpecNext ==
    \/ \E o \in SeekSets(len) : Seek(0, o)
    \/ \E o \in SeekCurs : Seek(1, o)
    \/ \E o \in SeekEnds : Seek(2, o)
    \/ Tell
    \/ \E n \in Sizes(len) : Read(n)
    \/ ReadAll

Spec == SpecInit /\ [][SpecNext]_svars

TypeOK == pos \in Nat /\ len \in Lens

\* A read never returns bytes outside the resource and never more than asked
ReadWithinResource ==
    last.a \in {"read", "readall"} =>
        /\ last.ret.from + last.ret.n <= len
        /\ (last.a = "read" => last.ret.n <= last.n)
=============================================================================
