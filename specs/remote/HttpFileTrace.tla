------------------------------ MODULE HttpFileTrace ------------------------------
(***************************************************************************)
(* Trace validation for C19: recorded sessions of the real HTTPFile (random*)
(* drivers and h5py's own access pattern) are checked against              *)
(* HttpFileSpec.  One JSON file holds many traces:                         *)
(*   [len, keep, ev: <<[a, ...logged fields...]>>]                         *)
(* The trace spec never blocks: a step that is not a step of the spec sets *)
(* `why` to the name of the failing clause and stops that trace.           *)
(***************************************************************************)
EXTENDS HttpFileSpec, TLC, Json, IOUtils

Traces == JsonDeserialize(IOEnv.TRACE_FILE)

VARIABLES tid, l, why

tvars == <<len, pos, last, tid, l, why>>

TInit == /\ tid \in 1..Len(Traces)
         /\ l = 1
         /\ why = "ok"
         /\ len = Traces[tid].len
         /\ pos = 0
         /\ last = [a |-> "init", pos |-> 0]

Ev == Traces[tid].ev[l]

\* the spec action named by the event, with the logged arguments
Act(e) == CASE e.a = "seek" -> Seek(e.whence, e.off)
            [] e.a = "tell" -> Tell
            [] e.a = "read" -> Read(e.n)
            [] e.a = "readall" -> ReadAll

\* which logged field contradicts the post-state of the spec action
Mismatch(e) ==
    IF e.a \in {"read", "readall"} /\ e.raised THEN "raised"
    ELSE IF e.a \in {"read", "readall"}
            /\ last'.ret # [from |-> e.from, n |-> e.cnt] THEN "bytes"
    ELSE IF last'.pos # e.pos THEN "position"
    ELSE IF e.held > Traces[tid].keep THEN "chunks-held"
    ELSE "ok"

TStep == /\ why = "ok"
         /\ l <= Len(Traces[tid].ev)
         /\ \/ /\ ENABLED Act(Ev)
               /\ Act(Ev)
               /\ why' = Mismatch(Ev)
            \/ /\ ~ENABLED Act(Ev)
               /\ why' = "not-enabled"
               /\ UNCHANGED <<len, pos, last>>
         /\ l' = l + 1
         /\ UNCHANGED tid

TSpec == TInit /\ [][TStep]_tvars

Report ==
    /\ (why = "ok" /\ l = Len(Traces[tid].ev) + 1) =>
            PrintT(<<"OK", ToJson([tid |-> tid])>>)
    /\ (why # "ok") =>
            PrintT(<<"REJ", ToJson([tid |-> tid, line |-> l - 1, why |-> why])>>)
=============================================================================
