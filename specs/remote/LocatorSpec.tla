------------------------------- MODULE LocatorSpec -------------------------------
(***************************************************************************)
(* Beyond the listed properties (X05): what a location string denotes.     *)
(*                                                                         *)
(* dclab accepts DCOR resources (identifier, host/api path, full URL),     *)
(* HTTP URLs, S3 object URLs and bare "bucket/key" paths as locations of   *)
(* datasets and basins.  Here a location is built from its parts (scheme,  *)
(* host, port, tail) and what it denotes is stated on the parts; the code  *)
(* decides the same questions with regular expressions and urlparse on the *)
(* assembled string.  Also specified: the full DCOR URL assembled from a   *)
(* location, the requested transport security and a default host; the S3   *)
(* endpoint and object path of a location.                                 *)
(***************************************************************************)
EXTENDS Integers, Sequences, FiniteSets, TLC, Json

U == "caab96f6-df12-4299-aa2e-089e390aafd5"
Api == "api/3/action/dcserv?id="

Schemes == {"", "http://", "https://"}
Hosts == {"", "dcor.example.org", "localhost"}
Ports == {"", ":9000"}
Tails == {"uuid", "api", "bk", "bkdot", "single"}
TailStr(t) == CASE t = "uuid" -> U
                [] t = "api" -> Api \o U
                [] t = "bk" -> "my-bucket/key-1"
                [] t = "bkdot" -> "my-bucket/file.rtdc"
                [] t = "single" -> "file.rtdc"
\* number of "/"-separated segments of the tail, and whether all of them consist
\* of lower-case letters, digits and hyphens only
TailSegs(t) == CASE t \in {"uuid", "single"} -> 1 [] t \in {"bk", "bkdot"} -> 2 [] t = "api" -> 4
TailPlain(t) == t \in {"uuid", "bk"}
HostPlain(h) == h = "localhost"

UseSsl == {"none", "yes", "no"}
HostArgs == {"other.example.org", "https://other.example.org"}

VARIABLES scheme, host, port, tail, ssl, hostarg
lvars == <<scheme, host, port, tail, ssl, hostarg>>

Loc == scheme \o host \o port \o (IF host # "" THEN "/" ELSE "") \o TailStr(tail)

Init == /\ scheme \in Schemes /\ host \in Hosts /\ port \in Ports /\ tail \in Tails
        /\ ssl \in UseSsl /\ hostarg \in HostArgs
        /\ port # "" => host # ""
        \* a scheme needs a host, except in front of a bare identifier
        /\ (scheme # "" /\ host = "") => tail = "uuid"
        \* the documented DCOR forms have no port and the api path needs a host
        /\ tail = "api" => host # "" /\ port = ""
Next == UNCHANGED lvars

\* ------------------------------ what it denotes ------------------------------
IsDcor == \/ tail = "uuid" /\ host = ""
          \/ tail = "api"
IsHttp == scheme # "" /\ host # ""
\* an S3 object URL names scheme, host, bucket and key; without scheme a location
\* is a bucket/key path if it consists of two or more plain segments
IsS3 == \/ scheme # "" /\ host # "" /\ TailSegs(tail) >= 2
        \/ /\ scheme = "" /\ TailPlain(tail) /\ (host = "" \/ (HostPlain(host) /\ port = ""))
           /\ (IF host = "" THEN 0 ELSE 1) + TailSegs(tail) >= 2
\* a DCOR basin location must be a full URL with a dotted host
IsFullDcor == tail = "api" /\ scheme # "" /\ host = "dcor.example.org"

\* full URL of a DCOR resource
SchemeOut == IF ssl = "yes" THEN "https" ELSE IF ssl = "no" THEN "http"
             ELSE IF scheme = "http://" THEN "http" ELSE "https"
FullUrl == SchemeOut \o "://"
           \o (IF tail = "api" THEN host \o port ELSE "other.example.org")
           \o "/" \o Api \o U

\* S3: endpoint (scheme://host:port with the default ports) and object path
Endpoint == IF scheme = "" THEN "none"
            ELSE scheme \o host \o (IF port # "" THEN port
                                    ELSE IF scheme = "http://" THEN ":80" ELSE ":443")
ObjectPath == IF scheme = "" THEN Loc ELSE TailStr(tail)

\* ------------------------------ properties ------------------------------
\* a DCOR location is never taken for a plain HTTP resource without the API path
DcorHasApiOrId == IsDcor => tail \in {"uuid", "api"}
\* full DCOR URLs are DCOR locations
FullIsDcor == IsFullDcor => IsDcor

Emit == PrintT(<<"H", ToJson([loc |-> Loc, ssl |-> ssl, hostarg |-> hostarg, tail |-> tail,
                              dcor |-> IsDcor, http |-> IsHttp, s3 |-> IsS3,
                              fulldcor |-> IsFullDcor,
                              fullurl |-> IF IsDcor THEN FullUrl ELSE "n/a",
                              endpoint |-> IF IsS3 /\ tail \in {"bk", "bkdot"}
                                           THEN Endpoint ELSE "n/a",
                              objpath |-> IF IsS3 /\ tail \in {"bk", "bkdot"}
                                          THEN ObjectPath ELSE "n/a"])>>)
=============================================================================
