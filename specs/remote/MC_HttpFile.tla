------------------------------ MODULE MC_HttpFile ------------------------------
(* Model-checking instances for HttpFileSpec / HttpFileImpl (C19). *)
EXTENDS HttpFileImpl, TLC, Json

CONSTANTS MaxLen, MaxDepth

MCLens == 0..MaxLen
MCSeekSets(l) == 0..(l + 2)
MCSeekCurs == {-2, -1, 1, 3}
MCSeekEnds == {-3, -1, 0, 1}
MCSizes(l) == {0, 1, 2, 3, 5, l + 2}
MCConfigs == [cs : 1..4, keep : 1..3]

Depth == TLCGet("level") <= MaxDepth
=============================================================================
