--------------------------------- MODULE BasinGraphSpec ---------------------------------
(***************************************************************************)
(* C14: basins are only followed when matching, acyclic and permitted.     *)
(*                                                                         *)
(* Files 1..K; file k stores the feature named k (so the set of features a *)
(* dataset offers shows which files were reached).  rid[k] is the run      *)
(* identifier: "a", "ax" ("a" extended: "a" is a proper prefix of it),     *)
(* "b" (unrelated), "x" / "i" (a suffix / an inner part of "ax": related   *)
(* as strings but not prefixes).  edge[u][v] is "none", or a basin definition in file u *)
(* pointing to file v: "file" / "filemapped" / "remote" / "dangling"       *)
(* (file-type definition whose target does not exist).                     *)
(*                                                                         *)
(* A basin is usable iff its identifier matches the referrer's: equal for  *)
(* unmapped basins; the basin's identifier is a prefix of the referrer's   *)
(* for mapped ones.  Once the dataset was reached through a network format *)
(* (the root opened via http, or any remote hop), file-type basins are not *)
(* followed.  Offered(root) is the least fixed point: since it is defined  *)
(* as reachability in a finite graph, cycles are irrelevant for the result *)
(* and the property demands that dclab computes it in finite time.         *)
(***************************************************************************)
EXTENDS Integers, FiniteSets, Sequences, TLC, Json

CONSTANTS K, Rids, EdgeKinds

VARIABLES rid, edge, remoteRoot

Nodes == 1..K
\* "none": the file carries no identifier at all.  A basin without identifier
\* does not equal (nor is it a prefix of) a referrer's identifier; when the
\* REFERRER has none there is nothing to compare with and the property is
\* silent: `lenient` says whether such a basin is followed.
IdMatch(u, v, mapped, lenient) ==
    IF rid[u] = "none" THEN lenient
    ELSE IF rid[v] = "none" THEN FALSE
    ELSE IF mapped THEN rid[v] = rid[u] \/ (rid[v] = "a" /\ rid[u] = "ax")   \* prefix
    ELSE rid[v] = rid[u]

\* An edge of kind "fileempty" is a file-type definition whose feature list is
\* explicitly empty: it offers nothing (it never appears in Step).
\* states of the traversal: <<node, reached through the network?>>
Step(S, len) ==
    S \cup {<<v, TRUE>> : v \in {w \in Nodes : \E s \in S :
                   edge[s[1]][w] = "remote" /\ IdMatch(s[1], w, FALSE, len)}}
      \cup {<<v, FALSE>> : v \in {w \in Nodes : \E s \in S :
                   ~s[2] /\ edge[s[1]][w] \in {"file", "filemapped"}
                   /\ IdMatch(s[1], w, edge[s[1]][w] = "filemapped", len)}}
      \* "disguised": a definition of type remote whose format and location
      \* are those of a local file.  Below a network hop it must not be
      \* followed (it is a local path); from a local dataset the property is
      \* silent (followed only in the lenient reading)
      \cup {<<v, FALSE>> : v \in {w \in Nodes : \E s \in S :
                   len /\ ~s[2] /\ edge[s[1]][w] = "disguised"
                   /\ IdMatch(s[1], w, FALSE, len)}}
RECURSIVE FixL(_, _)
FixL(S, len) == IF Step(S, len) = S THEN S ELSE FixL(Step(S, len), len)
Fix(S) == FixL(S, TRUE)
Reached == {s[1] : s \in Fix({<<1, remoteRoot>>})}
\* the features the root dataset may offer = the files reached; the ones it
\* must offer = those reached without relying on the silent case
Offered == Reached
MustOffer == {s[1] : s \in FixL({<<1, remoteRoot>>}, FALSE)}
\* ... of which the ones reached over local files only (whether a network
\* location answers in time is not the library's doing: "unreachable basins
\* make their features unavailable")
MustOfferLocal == {1} \cup {s[1] : s \in {t \in FixL({<<1, remoteRoot>>}, FALSE) : ~t[2]}}

Init == /\ rid \in [Nodes -> Rids]
        /\ edge \in [Nodes -> [Nodes -> EdgeKinds]]
        /\ remoteRoot \in BOOLEAN
Next == UNCHANGED <<rid, edge, remoteRoot>>

\* a file is followed as a local file only along a chain of local files that
\* starts at a locally opened root (no local path is opened below a network hop)
NoLocalBelowRemote ==
    \A s \in Fix({<<1, remoteRoot>>}) :
        (~s[2] /\ ~(s[1] = 1 /\ ~remoteRoot)) =>
            \E t \in Fix({<<1, remoteRoot>>}) :
                ~t[2] /\ edge[t[1]][s[1]] \in {"file", "filemapped", "disguised"}

Emit == PrintT(<<"H", ToJson([rid |-> rid, edge |-> edge, remoteRoot |-> remoteRoot,
                              offered |-> Offered, must |-> MustOffer,
                              mustlocal |-> MustOfferLocal])>>)
=============================================================================
