--------------------------------- MODULE BasinSpec ---------------------------------
(***************************************************************************)
(* C07: basin-provided features equal the origin's data for the mapped     *)
(* events.                                                                 *)
(*                                                                         *)
(* The origin measurement has the events 1..N (tokens).  Every other file  *)
(* is derived from an existing file by a selection `sel`: a sequence of    *)
(* positions of the source's events - increasing for a filtered export or  *)
(* the export of a hierarchy child / grandchild, arbitrary (subset, repetition,         *)
(* permutation, superset) for an explicitly mapped basin.  The derived     *)
(* file stores only some features itself; everything else must come        *)
(* through its basin(s), possibly through basins of basins.  Spec: file k  *)
(* shows, for EVERY feature, the origin events ev[k] - the composition of  *)
(* the selections along its chain - and for a feature it stores itself     *)
(* (marked by a version) its own data.                                     *)
(***************************************************************************)
EXTENDS Integers, Sequences, FiniteSets, TLC, Json

CONSTANTS N,            \* events of the origin
          MaxFiles,     \* chain length bound (origin included)
          FirstSels,    \* selections tried on the origin
          LaterSels(_)  \* length of the source -> selections tried further down

VARIABLES files         \* sequence of [ev, src, how, own]

Origin == [ev |-> [i \in 1..N |-> i], src |-> 0, how |-> "origin", own |-> FALSE]
Init == files = <<Origin>>

\* "internal": the derived file carries the source's feature data itself, as
\* rows of an internal basin that its events address through a mapping (the
\* shared rows of the property); such a file is a leaf here
Hows == {"export", "child", "grandchild", "mapped", "internal"}
Increasing(s) == \A i \in 1..(Len(s) - 1) : s[i] < s[i + 1]

\* a new file derived from file `src` by selection `sel`;
\* own: it also stores one basin feature itself (with its own values)
Derive(src, how, sel, own) ==
    /\ Len(files) < MaxFiles
    /\ files[src].how # "internal"
    /\ Len(sel) >= 1
    /\ \A i \in 1..Len(sel) : sel[i] \in 1..Len(files[src].ev)
    /\ how \in {"export", "child", "grandchild"} => Increasing(sel)
    /\ files' = Append(files, [ev |-> [i \in 1..Len(sel) |-> files[src].ev[sel[i]]],
                               src |-> src, how |-> how, sel |-> sel, own |-> own])

Next == \E how \in Hows, own \in BOOLEAN :
            LET src == Len(files)        \* chains: always derive from the youngest
                sels == IF src = 1 THEN FirstSels ELSE LaterSels(Len(files[src].ev))
            IN  \E sel \in sels : Derive(src, how, sel, own)

\* the events a file shows are origin events, in the composed order
ComposedOK ==
    \A k \in 2..Len(files) :
        files[k].ev = [i \in 1..Len(files[k].sel) |-> files[files[k].src].ev[files[k].sel[i]]]
=============================================================================
