--------------------------------- MODULE MC_Basin ---------------------------------
EXTENDS BasinSpec
\* increasing selections = masks; all non-empty masks of 5 events
RECURSIVE SeqOf(_)
SeqOf(S) == IF S = {} THEN <<>>
            ELSE LET m == CHOOSE x \in S : \A y \in S : x <= y
                 IN  <<m>> \o SeqOf(S \ {m})
MCFirst == {SeqOf(S) : S \in (SUBSET (1..5)) \ {{}}}
             \cup {<<5, 4, 3, 2, 1>>, <<1, 1, 2>>, <<1, 2, 3, 4, 5, 1, 2, 3, 4, 5, 1, 2>>, <<3>>}
\* further down: a few selections depending on the source's length n
MCLater(n) ==
    {s \in {SeqOf(1..n), SeqOf({1}), SeqOf({n}), SeqOf({i \in 1..n : i % 2 = 1}),
            SeqOf((1..n) \ {1}), [i \in 1..n |-> n + 1 - i], <<1, 1>>} : Len(s) >= 1}
\* every mapping array of length 1..4 over the first four origin events
\* (subsets, permutations, repetitions, supersets), as an explicitly mapped
\* basin of the origin; optionally followed by one more derivation
MCAllMaps == UNION {[1..k -> 1..4] : k \in 1..4}
MapNext ==
    \/ /\ Len(files) = 1
       /\ \E sel \in MCAllMaps, own \in BOOLEAN : Derive(1, "mapped", sel, own)
    \/ /\ Len(files) = 2
       /\ \E how \in {"export", "mapped"} :
             \E sel \in MCLater(Len(files[2].ev)) : Derive(2, how, sel, FALSE)
\* maps that differ from an increasing one of the same length and end points
\* (a mapped file, then one more derivation from it: two mapped basins with
\* different maps of equal length and equal end points meet in one file)
MCEndpointMaps == {<<1, 3, 2, 4>>, <<1, 2, 2, 4>>, <<1, 3, 2, 4, 5>>}
EndpointNext ==
    \/ /\ Len(files) = 1
       /\ \E sel \in MCEndpointMaps, own \in BOOLEAN : Derive(1, "mapped", sel, own)
    \/ /\ Len(files) = 2
       /\ \E how \in {"export", "mapped"}, own \in BOOLEAN :
             \E sel \in MCLater(Len(files[2].ev)) : Derive(2, how, sel, own)
Emit == (Len(files) >= 2) => PrintT(<<"H", ToJson(files)>>)
=============================================================================
