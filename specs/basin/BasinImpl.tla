--------------------------------- MODULE BasinImpl ---------------------------------
(***************************************************************************)
(* C07, implementation-shaped: the basin list that Export.hdf5(basins=True) *)
(* writes (rtdc_dataset/export.py), transcribed.                           *)
(*                                                                         *)
(* A file F has the events ev[F] (origin ids - the ground truth the        *)
(* specification BasinSpec talks about) and a list of basin definitions    *)
(* [tgt, map]: tgt an older file, map a sequence of 0-based event indices  *)
(* of tgt, or Same.  An export is made from a file (with its filter array) *)
(* or from a hierarchy child of a file (the child shows the events of the  *)
(* root selected by idx = map_indices_child2root, and has a filter array   *)
(* of its own).  The export                                                *)
(*   1. copies the basins of the dataset (a child has the basins of its    *)
(*      root); for a child their maps are composed with idx                *)
(*      (ComposeChild; FALSE is the pinned commit: maps copied unchanged), *)
(*   2. adds a basin that refers to the source file itself (Same) or, for  *)
(*      a child, to the root file with map idx,                            *)
(*   3. when filtered, replaces Same by where(filter) and map by           *)
(*      map[filter] in every basin.                                        *)
(* Invariant: every basin definition of every file addresses exactly the   *)
(* file's own events in its target (the statement of BasinSpec for one     *)
(* hop; chains follow by induction).                                       *)
(***************************************************************************)
EXTENDS Integers, Sequences, FiniteSets, TLC

CONSTANTS N,             \* events of the origin
          MaxFiles,
          ComposeChild   \* repaired export of hierarchy children

VARIABLES ev,            \* sequence over files: Seq(origin id)
          basins         \* sequence over files: Seq([tgt, map])

bvars == <<ev, basins>>
Same == <<-1>>
Where(b) ==
    LET F[i \in 0..Len(b)] ==
            IF i = 0 THEN <<>> ELSE IF b[i] THEN Append(F[i - 1], i - 1) ELSE F[i - 1]
    IN  F[Len(b)]                                     \* 0-based positions
Take(s, idx) == [j \in 1..Len(idx) |-> s[idx[j] + 1]]  \* s[idx] with 0-based idx
Masks(n) == {m \in [1..n -> BOOLEAN] : \E i \in 1..n : m[i]}

Init == /\ ev = << [i \in 1..N |-> i] >>
        /\ basins = << <<>> >>

\* the basin list written for a dataset showing `events`, derived from file
\* src; childIdx = <<>> for a plain file, else the 0-based root indices
BasinList(src, childIdx, isChild, filtered, farr) ==
    LET upstream == basins[src]
        step1 == IF ~isChild THEN upstream
                 ELSE [k \in 1..Len(upstream) |->
                          [tgt |-> upstream[k].tgt,
                           map |-> IF ~ComposeChild THEN upstream[k].map
                                   ELSE IF upstream[k].map = Same THEN childIdx
                                   ELSE Take(upstream[k].map, childIdx)]]
        own == [tgt |-> src, map |-> IF isChild THEN childIdx ELSE Same]
        step2 == Append(step1, own)
        fidx == Where(farr)
    IN  IF ~filtered THEN step2
        ELSE [k \in 1..Len(step2) |->
                 [tgt |-> step2[k].tgt,
                  map |-> IF step2[k].map = Same THEN fidx
                          ELSE Take(step2[k].map, fidx)]]

\* export of file src itself
ExportFile(src, filtered, farr) ==
    /\ Len(ev) < MaxFiles
    /\ Len(farr) = Len(ev[src])
    /\ ev' = Append(ev, IF filtered THEN Take(ev[src], Where(farr)) ELSE ev[src])
    /\ basins' = Append(basins, BasinList(src, <<>>, FALSE, filtered, farr))

\* export of a hierarchy child of file src: the child selects cidx (0-based,
\* increasing) of the root's events and has a filter array of its own
ExportChild(src, cmask, filtered, farr) ==
    LET cidx == Where(cmask)
        shown == Take(ev[src], cidx)
    IN  /\ Len(ev) < MaxFiles
        /\ Len(cmask) = Len(ev[src]) /\ Len(farr) = Len(shown)
        /\ ev' = Append(ev, IF filtered THEN Take(shown, Where(farr)) ELSE shown)
        /\ basins' = Append(basins, BasinList(src, cidx, TRUE, filtered, farr))

Next ==
    \E src \in 1..Len(ev) :
        \/ \E farr \in Masks(Len(ev[src])), filtered \in BOOLEAN :
               ExportFile(src, filtered, farr)
        \/ \E cmask \in Masks(Len(ev[src])) :
               \E farr \in Masks(Cardinality({i \in 1..Len(cmask) : cmask[i]})),
                  filtered \in BOOLEAN :
                   ExportChild(src, cmask, filtered, farr)

\* every definition addresses the file's own events in its target
MapOK(f, b) ==
    IF b.map = Same THEN ev[b.tgt] = ev[f]
    ELSE /\ Len(b.map) = Len(ev[f])
         /\ \A j \in 1..Len(b.map) :
                b.map[j] + 1 \in 1..Len(ev[b.tgt]) /\ ev[b.tgt][b.map[j] + 1] = ev[f][j]
BasinMapsCorrect ==
    \A f \in 1..Len(ev) : \A k \in 1..Len(basins[f]) : MapOK(f, basins[f][k])
=============================================================================
