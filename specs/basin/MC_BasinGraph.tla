--------------------------------- MODULE MC_BasinGraph ---------------------------------
EXTENDS BasinGraphSpec
LocalKinds == {"none", "file", "filemapped"}
AllKinds == {"none", "file", "filemapped", "remote", "dangling"}
ThreeRids == {"a", "ax", "b"}
\* "x": a proper suffix of "ax", "i": an inner part of "ax" - contained in the
\* root's identifier without being a prefix of it (IdMatch: no match)
FiveRids == {"a", "ax", "b", "x", "i"}
NoneRids == {"ax", "a", "none"}
CONSTANTS RootRid
\* restricted initial states: no self references unless SelfLoops; the root's id is "ax"
CONSTANTS SelfLoops, RemoteToo
MCInit == /\ Init
          /\ rid[1] = RootRid
          /\ ~SelfLoops => \A u \in Nodes : edge[u][u] = "none"
          /\ ~RemoteToo => ~remoteRoot
=============================================================================
