--------------------------------- MODULE MC_BasinGraph ---------------------------------
EXTENDS BasinGraphSpec
LocalKinds == {"none", "file", "filemapped"}
AllKinds == {"none", "file", "filemapped", "remote", "dangling"}
DisguisedKinds == {"none", "file", "remote", "disguised"}
EmptyListKinds == {"none", "file", "filemapped", "fileempty"}
ThreeRids == {"a", "ax", "b"}
\* "x": a proper suffix of "ax", "i": an inner part of "ax" - contained in the
\* root's identifier without being a prefix of it (IdMatch: no match)
FiveRids == {"a", "ax", "b", "x", "i"}
NoneRids == {"ax", "a", "none"}
CONSTANTS RootRid
\* restricted initial states: no self references unless SelfLoops; the root's id is "ax"
CONSTANTS SelfLoops, RemoteToo
MCInit == /\ Init
          /\ rid[1] = RootRid
          /\ ~SelfLoops => \A u \in Nodes : edge[u][u] = "none"
          /\ ~RemoteToo => ~remoteRoot
\* larger structured graphs (K = 4..6): chains, k-cycles through the root,
\* cycles that do not pass the root, diamonds; one kind pattern per graph
Shapes == {"chain", "cycle", "lasso", "diamond"}
ChainE == {<<i, i + 1>> : i \in 1..(K - 1)}
ShapeEdges(sh) ==
    CASE sh = "chain" -> ChainE
      [] sh = "cycle" -> ChainE \cup {<<K, 1>>}
      [] sh = "lasso" -> ChainE \cup {<<K, 2>>}
      [] sh = "diamond" -> {<<1, 2>>, <<1, 3>>, <<2, 4>>, <<3, 4>>}
                           \cup {<<i, i + 1>> : i \in 4..(K - 1)}
KindOf(pat, u) == CASE pat = "file" -> "file" [] pat = "mapped" -> "filemapped"
                    [] pat = "alternating" -> IF u % 2 = 1 THEN "file" ELSE "filemapped"
ShapeInit ==
    /\ rid \in [Nodes -> Rids] /\ rid[1] = RootRid
    /\ remoteRoot = FALSE
    /\ \E sh \in Shapes, pat \in {"file", "mapped", "alternating"} :
          edge = [u \in Nodes |-> [v \in Nodes |->
                     IF <<u, v>> \in ShapeEdges(sh) THEN KindOf(pat, u) ELSE "none"]]
=============================================================================
