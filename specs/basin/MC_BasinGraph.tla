--------------------------------- MODULE MC_BasinGraph ---------------------------------
EXTENDS BasinGraphSpec
LocalKinds == {"none", "file", "filemapped"}
AllKinds == {"none", "file", "filemapped", "remote", "dangling"}
ThreeRids == {"a", "ax", "b"}
\* restricted initial states: no self references unless SelfLoops; the root's id is "ax"
CONSTANTS SelfLoops, RemoteToo
MCInit == /\ Init
          /\ rid[1] = "ax"
          /\ ~SelfLoops => \A u \in Nodes : edge[u][u] = "none"
          /\ ~RemoteToo => ~remoteRoot
=============================================================================
