-------------------------------- MODULE MC_Export --------------------------------
EXTENDS ExportSpec, TLC, Json
CONSTANTS BigN, C0
MCChunks == {1, 2, 3}
\* enumeration for the replay: all masks of small sources plus, for a source of
\* BigN events (several chunks of C0), the masks whose size straddles C0 and 2*C0
Prefix(k) == 1..k
Suffix(k) == (BigN - k + 1)..BigN
Strided(k) == {i \in 1..BigN : i % 2 = 1 /\ (i + 1) \div 2 <= k}
Family == UNION {{Prefix(k), Suffix(k), Strided(k)} :
                 k \in {0, 1, C0 - 1, C0, C0 + 1, 2 * C0 - 1, 2 * C0, 2 * C0 + 1, BigN}}
EInit == \/ Init /\ c = C0
         \/ /\ n = BigN /\ mask \in Family /\ filtered \in BOOLEAN /\ c = C0
Emit == PrintT(<<"H", ToJson([n |-> n, mask |-> mask, filtered |-> filtered,
                              exported |-> Exported])>>)
=============================================================================
