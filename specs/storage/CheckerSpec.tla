--------------------------------- MODULE CheckerSpec ---------------------------------
(***************************************************************************)
(* C13: the integrity checker accepts dclab's own output and flags real    *)
(* inconsistencies.                                                        *)
(*                                                                         *)
(* A file is produced by one of dclab's write paths from a dataset with    *)
(* complete metadata and then, possibly, corrupted with raw h5py by up to  *)
(* two seeded inconsistencies, and possibly copied by compress / repack.   *)
(* Specification: the set of violation classes reported for the file       *)
(* contains the class of every corruption applied (extra alerts are        *)
(* allowed), it is empty for uncorrupted files (closure of the write       *)
(* paths), and compress / repack do not change it.                         *)
(***************************************************************************)
EXTENDS Integers, FiniteSets, Sequences, TLC, Json

WritePaths == {"writer", "writer-appended", "export", "export-filtered", "compress",
               "repack", "condense", "split-part", "join"}
\* "index": the index is a permutation (reversed); "indexoffset": consecutive
\* values that do not start at 1 (a fragment cut out of a larger file)
Corruptions == {"len", "roi", "unknown", "missing", "index", "indexoffset", "chcount", "lasers",
                "samples", "extlink", "flowzero", "pixneg", "chwzero", "flmissing",
                \* "nopower": a counted laser without its power key
                "nopower",
                \* counts of zero although channels / lasers are there
                "chcount0", "lasers0",
                \* "indexlen": a stored index feature with fewer entries than events
                "indexlen"}
\* corruptions of the metadata survive a copy of the file - except for the keys
\* that the writer derives from the data whenever it closes a file (ROI size,
\* samples per event): a copy repairs those, which is not held against it
MetaCorruptions == {"missing", "chcount", "lasers", "flowzero", "pixneg", "chwzero",
                    "chcount0", "lasers0"}
Class(c) == CASE c = "len" -> "feature length differs from the event count"
              [] c = "roi" -> "image size contradicts the ROI metadata"
              [] c = "unknown" -> "unknown feature"
              [] c \in {"missing", "flmissing"} -> "mandatory metadata missing"
              [] c \in {"index", "indexoffset", "indexlen"} -> "index does not enumerate the events"
              [] c \in {"chcount", "chcount0"} -> "fluorescence channel count contradicts the data"
              [] c \in {"lasers", "nopower", "lasers0"} -> "laser count contradicts the metadata"
              [] c = "samples" -> "samples per event contradict the trace length"
              [] c = "extlink" -> "external link"
              [] c \in {"flowzero", "pixneg", "chwzero"} -> "non-positive set-up value"

\* which image-shaped features the written dataset holds (the ROI metadata
\* must agree with every one of them, whichever are present)
ImageShaped == {"image", "image_bg", "mask"}
FullContent == {"image", "mask"}

\* which fluorescence channel the measurement used ("fl1": channel 1 with
\* traces, the default; "fl2" / "fl3": that channel's maximum only)
FlChannels == {"fl1", "fl2", "fl3"}

VARIABLES path, corr, copied, content, fl

Init == /\ path \in WritePaths
        /\ corr \in {S \in SUBSET Corruptions : Cardinality(S) <= 2}
        /\ copied \in {"no", "compress", "repack"}
        /\ content \in SUBSET ImageShaped
        \* the content dimension is explored for the corruptions that depend
        \* on it, on the write paths that keep image data, without copies
        /\ content # FullContent =>
              /\ corr \subseteq {"roi", "len", "unknown"}
              /\ copied = "no"
              /\ path \in {"writer", "export", "export-filtered", "compress", "split-part"}
        /\ fl \in FlChannels
        /\ fl # "fl1" =>
              /\ corr \subseteq {"chcount", "lasers", "flmissing", "nopower", "chcount0", "lasers0"}
              /\ corr # {}
              /\ copied = "no" /\ content = FullContent
              /\ path \in {"writer", "export", "compress"}
        \* an ROI contradiction needs image-shaped data
        /\ ("roi" \in corr) => content # {}
        \* corruptions need the respective data: a condensed file has no image / trace
        /\ (path = "condense") => corr \cap {"roi", "samples", "chcount", "lasers", "nopower", "chcount0",
                                             "lasers0"} = {}
        /\ (copied # "no") => corr \subseteq MetaCorruptions
        \* two corruptions of the same key do not both show
        /\ ~({"chwzero", "missing"} \subseteq corr)
        /\ Cardinality({"index", "indexoffset", "indexlen"} \cap corr) <= 1
        /\ ~({"lasers", "nopower"} \subseteq corr)
        /\ ~({"chcount", "chcount0"} \subseteq corr)
        /\ Cardinality({"lasers", "nopower", "lasers0"} \cap corr) <= 1
Next == UNCHANGED <<path, corr, copied, content, fl>>

ExpectedClasses == {Class(c) : c \in corr}
Closure == corr = {} => ExpectedClasses = {}

Emit == PrintT(<<"H", ToJson([path |-> path, corr |-> corr, copied |-> copied,
                              content |-> content, fl |-> fl,
                              expected |-> ExpectedClasses])>>)
=============================================================================
