--------------------------------- MODULE MetaSpec ---------------------------------
(***************************************************************************)
(* C11: metadata values are type-normalised and survive storage unchanged. *)
(*                                                                         *)
(* A configuration key has one of the documented type classes.  A value is *)
(* an abstract payload (what is meant) given in a representation (how the  *)
(* caller writes it).  The specification: whatever accepted representation *)
(* of payload p is assigned through whatever route, the stored value is p  *)
(* in the documented type; rejected inputs (empty string, None, unknown    *)
(* key) store nothing; and every storage step (write/read an .rtdc file,   *)
(* export, compress, repack, text round trip) is the identity on stored    *)
(* values.                                                                 *)
(***************************************************************************)
EXTENDS Integers, Sequences, FiniteSets, TLC, Json

Types == {"str", "lcstr", "float", "fint", "fbool", "fboolorfloat",
          "fintlist", "f1dfloatduple", "f2dfloatarray"}

\* payload identifiers per type (the adapter concretises them)
Payloads(t) ==
    \* "numeric text" / "yes-no text": strings that look like a number / a truth
    \* value and must stay the strings they are
    CASE t = "str" -> {"text", "Mixed Case Text", "unicode", "numeric text", "yes-no text"}
      [] t = "lcstr" -> {"lower"}
      [] t = "float" -> {"1.5", "0", "-2", "1e-7", "3 (integral)"}
      [] t = "fint" -> {"3", "0", "1"}
      \* "true (fraction)": a truth value given as a non-zero number below one
      \* (any non-zero number is true)
      [] t = "fbool" -> {"true", "false", "true (fraction)"}
      [] t = "fboolorfloat" -> {"true", "false", "2.5", "1 (one)"}
      [] t = "fintlist" -> {"[1,2,3]", "[]", "[7]", "[0,2]"}
      [] t = "f1dfloatduple" -> {"(1.5,2)"}
      [] t = "f2dfloatarray" -> {"[[1,2],[3,4.5]]"}

Integral(t, p) == \/ t = "fint"
                  \/ (t = "float" /\ p \in {"0", "-2", "3 (integral)"})

\* representations in which payload p of type t can be written
Reprs(t, p) ==
    \* "bytes": the UTF-8 encoding of the text / of the numeric string (what
    \* HDF5 attributes hand out)
    CASE t \in {"str"} -> {"str", "bytes"}
      [] t = "lcstr" -> {"str", "str upper", "bytes"}
      [] t \in {"float", "fint"} ->
            {"native", "numpy scalar", "numeric string", "bytes"}
            \cup (IF Integral(t, p) THEN {"int", "float", "numpy int"} ELSE {})
            \cup (IF t = "fint" /\ p \in {"0", "1"} THEN {"bool", "bool string"} ELSE {})
      [] t = "fbool" ->
            IF p = "true (fraction)"
            THEN {"fraction", "fraction string", "negative fraction", "fraction bytes"}
            ELSE {"native", "numpy bool", "int", "float", "bool string",
                  "lower bool string", "numeric string"}
      [] t = "fboolorfloat" ->
            IF p = "2.5" THEN {"native", "numeric string"}
            \* the number one is a float, not the truth value it equals
            ELSE IF p = "1 (one)" THEN {"native", "int", "numeric string", "numpy scalar"}
            ELSE {"native", "bool string"}
      [] t = "fintlist" -> {"list", "tuple", "string"}
      [] t = "f1dfloatduple" -> {"tuple", "list", "numpy array"}
      [] t = "f2dfloatarray" -> {"list", "numpy array"}

\* "empty bytes": the empty text as a byte string
Rejected == {"empty string", "empty bytes", "none", "unknown key"}
\* "file other case": a configuration file whose key names are capitalised
Routes == {"setitem", "setitem other case", "update", "constructor", "file",
           "file other case"}

\* ---- part A: assignment cases with what must be stored afterwards ----
AssignCases ==
    {[type |-> t, payload |-> p, repr |-> r, route |-> ro, stored |-> TRUE]
        : t \in Types, p \in UNION {Payloads(tt) : tt \in Types},
          r \in UNION {Reprs(tt, pp) : tt \in Types, pp \in UNION {Payloads(x) : x \in Types}},
          ro \in Routes}

ValidCase(c) == c.payload \in Payloads(c.type) /\ c.repr \in Reprs(c.type, c.payload)

RejectCases ==
    {[type |-> t, payload |-> "n/a", repr |-> r, route |-> ro, stored |-> FALSE]
        : t \in Types, r \in Rejected, ro \in Routes \ {"file", "file other case"}}

\* ---- part B: storage pipelines are the identity ----
Steps == {"write_read", "export", "compress", "repack", "text"}
Pipes(n) == UNION {[1..k -> Steps] : k \in 1..n}

VARIABLES case
Init == case \in {c \in AssignCases : ValidCase(c)} \cup RejectCases
Next == UNCHANGED case
Emit == PrintT(<<"H", ToJson(case)>>)

\* sanity of the table itself: every type has payloads, every payload a native form
TableTotal == \A t \in Types : Payloads(t) # {} /\ \A p \in Payloads(t) : Reprs(t, p) # {}
=============================================================================
