-------------------------------- MODULE WriterTrace --------------------------------
(* C01, code -> spec: long random writer sessions (open in any mode, store features  *)
(* of every kind with any number of events, store logs, close, re-open ...) are     *)
(* recorded and checked against WriterSpec.  What the file holds is logged whenever  *)
(* the writer is closed: per feature the decoded tokens (-1 = a value that is not    *)
(* the encoding of any token), per log the <<class, id>> lines.  A logged feature    *)
(* or log that the spec does not know (never written) must be empty.                 *)
EXTENDS WriterSpec, TLC, Json, IOUtils

Traces == JsonDeserialize(IOEnv.TRACE_FILE)
VARIABLES tid, pos, why
tvars == <<wvars, tid, pos, why>>

TFeats == {"deform", "area_um", "image", "mask", "contour", "trace", "fl1_max", "index"}
TLogs == {"log", "log2"}
TModes == {"append", "replace", "reset"}

TInit == WInit /\ tid \in 1..Len(Traces) /\ pos = 1 /\ why = "ok"
Ev == Traces[tid].ev[pos]

Act(e) == CASE e.a = "open" -> Open(e.mode)
            [] e.a = "store" -> Store(e.f, e.n)
            [] e.a = "storelog" -> StoreLog(e.l, e.classes)
            [] e.a = "close" -> Close

Pairs(s) == [i \in 1..Len(s) |-> <<s[i][1], s[i][2]>>]
Mismatch(e) ==
    IF e.a = "store" /\ e.first # nextTok THEN "driver-token-mismatch"
    ELSE IF e.a # "close" THEN "ok"
    \* (the index holds an enumeration, not tokens: its length and 1..N are logged)
    ELSE IF \E f \in Feats \ {"index"} : e.content[f] # content'[f] THEN "feature-content"
    ELSE IF e.indexlen # Len(content'["index"]) THEN "index-length"
    ELSE IF \E l \in LogNames : Pairs(e.logs[l]) # logs'[l] THEN "log-content"
    ELSE IF e.count # e.stored THEN "event-count"
    ELSE IF ~e.indexok THEN "index"
    ELSE "ok"

TStep == /\ why = "ok" /\ pos <= Len(Traces[tid].ev)
         /\ pos' = pos + 1 /\ UNCHANGED tid
         /\ IF Ev.raised THEN why' = "raised" /\ UNCHANGED wvars
            ELSE \/ ENABLED Act(Ev) /\ Act(Ev) /\ why' = Mismatch(Ev)
                 \/ ~ENABLED Act(Ev) /\ why' = "not-enabled" /\ UNCHANGED wvars

Report ==
    /\ (why = "ok" /\ pos = Len(Traces[tid].ev) + 1) =>
            PrintT(<<"OK", ToJson([tid |-> tid])>>)
    /\ (why # "ok") =>
            PrintT(<<"REJ", ToJson([tid |-> tid, line |-> pos - 1, why |-> why])>>)
=============================================================================
