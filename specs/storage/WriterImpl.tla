-------------------------------- MODULE WriterImpl --------------------------------
(***************************************************************************)
(* Implementation-shaped model of RTDCWriter's storage routines (C01):     *)
(*  - write_ndarray: resize, then populate chunk-wise with a remainder;    *)
(*  - write_ragged: per-instance counter of the group size;                *)
(*  - write_text: fixed-width strings, width frozen at creation unless     *)
(*    WidenText (repaired).                                                *)
(* `disk[f]` is the array as stored: a sequence of cells, each a token or  *)
(* Hole (allocated by resize, never written).  For ragged groups the disk  *)
(* is a function from dataset names (integers) to tokens.                  *)
(***************************************************************************)
EXTENDS WriterSpec

CONSTANTS C,           \* chunk length of nd datasets (events)
          NdFeats,     \* features stored chunk-wise (image, mask, trace)
          Ragged,      \* features stored as a group of datasets (contour)
          WidenText    \* repaired write_text

VARIABLES disk,        \* [Feats -> Seq(token or Hole)]
          rag,         \* [Ragged -> [name -> token]] as set of <<name, tok>>
          counter,     \* [Ragged -> writer's _group_sizes entry, -1 unset]
          width,       \* [LogNames -> frozen string width, 0 = no dataset]
          tdisk        \* [LogNames -> Seq(<<class, id, truncated>>)]

ivars == <<wvars, disk, rag, counter, width, tdisk>>

Hole == 0
ByteLen(c) == CASE c = "short" -> 20 [] c = "exact100" -> 100
                [] c = "long150" -> 150 [] c = "unicode" -> 60 [] c = "bytes" -> 30
                [] c = "unicode140" -> 140
Max(a, b) == IF a > b THEN a ELSE b
MaxOver(S) == IF S = {} THEN 0 ELSE CHOOSE m \in S : \A x \in S : x <= m

ImplInit ==
    /\ WInit
    /\ disk = [f \in Feats |-> <<>>]
    /\ rag = [f \in Ragged |-> {}]
    /\ counter = [f \in Ragged |-> -1]
    /\ width = [l \in LogNames |-> 0]
    /\ tdisk = [l \in LogNames |-> <<>>]

IOpen(m) ==
    /\ Open(m)
    /\ counter' = [f \in Ragged |-> -1]           \* new instance, empty dict
    /\ IF m = "reset"
       THEN /\ disk' = [f \in Feats |-> <<>>] /\ rag' = [f \in Ragged |-> {}]
            /\ width' = [l \in LogNames |-> 0] /\ tdisk' = [l \in LogNames |-> <<>>]
       ELSE UNCHANGED <<disk, rag, width, tdisk>>

\* the chunk loop of write_ndarray: which cells get which tokens
ChunkWrite(old, toks) ==
    LET off == Len(old)
        n == Len(toks)
        resized == old \o [i \in 1..n |-> Hole]
        nchunks == n \div C
        nrem == n % C
        \* cell off+k (1-based k) is written iff k is in a full chunk or the remainder
        written(k) == k <= nchunks * C \/ (nrem > 0 /\ k > nchunks * C /\ k <= nchunks * C + nrem)
    IN  [i \in 1..(off + n) |->
            IF i <= off THEN old[i]
            ELSE IF written(i - off) THEN toks[i - off] ELSE Hole]

IStore(f, n) ==
    /\ Store(f, n)
    /\ IF f \in Ragged
       THEN LET base0 == IF mode = "replace" THEN {} ELSE rag[f]
                \* replace mode deletes the group, but the instance's counter
                \* for a deleted group object is a fresh entry
                cur == IF counter[f] = -1 \/ mode = "replace"
                       THEN Cardinality(base0) ELSE counter[f]
            IN  /\ rag' = [rag EXCEPT ![f] =
                             {p \in base0 : p[1] < cur \/ p[1] >= cur + n}
                             \cup {<<cur + i - 1, nextTok + i - 1>> : i \in 1..n}]
                /\ counter' = [counter EXCEPT ![f] = cur + n]
                /\ UNCHANGED disk
       ELSE /\ disk' = [disk EXCEPT ![f] =
                          IF f \in NdFeats
                          THEN ChunkWrite(IF mode = "replace" THEN <<>> ELSE @, Fresh(n))
                          ELSE (IF mode = "replace" THEN <<>> ELSE @) \o Fresh(n)]
            /\ UNCHANGED <<rag, counter>>
    /\ UNCHANGED <<width, tdisk>>

IStoreLog(l, classes) ==
    /\ StoreLog(l, classes)
    /\ LET need == Max(100, MaxOver({ByteLen(classes[i]) : i \in 1..Len(classes)}))
           fresh == mode = "replace" \/ width[l] = 0
           oldmax == MaxOver({ByteLen(tdisk[l][i][1]) : i \in 1..Len(tdisk[l])})
           w == IF fresh THEN need
                ELSE IF WidenText THEN Max(width[l], need) ELSE width[l]
           new == [i \in 1..Len(classes) |->
                     <<classes[i], nextTok + i - 1, ByteLen(classes[i]) > w>>]
       IN  /\ width' = [width EXCEPT ![l] = w]
           /\ tdisk' = [tdisk EXCEPT ![l] = IF fresh THEN new ELSE @ \o new]
    /\ UNCHANGED <<disk, rag, counter>>

IClose == Close /\ UNCHANGED <<disk, rag, counter, width, tdisk>>

ImplNext ==
    \/ \E m \in Modes : IOpen(m)
    \/ \E f \in Feats, n \in Sizes : IStore(f, n)
    \/ \E l \in LogNames, cs \in LineSeqs : IStoreLog(l, cs)
    \/ IClose

\* ----------------------------- what must hold -----------------------------
\* what a reader sees equals the specified content
RagSeq(f) == [i \in 1..Cardinality(rag[f]) |->
                IF \E p \in rag[f] : p[1] = i - 1
                THEN (CHOOSE p \in rag[f] : p[1] = i - 1)[2] ELSE Hole]
ReadBack ==
    \A f \in Feats :
        IF f \in Ragged THEN RagSeq(f) = content[f] ELSE disk[f] = content[f]
\* every log line is stored completely
LogsIntact ==
    \A l \in LogNames :
        /\ Len(tdisk[l]) = Len(logs[l])
        /\ \A i \in 1..Len(logs[l]) :
              /\ tdisk[l][i][1] = logs[l][i][1] /\ tdisk[l][i][2] = logs[l][i][2]
              /\ ~tdisk[l][i][3]
=============================================================================
