-------------------------------- MODULE MC_Writer --------------------------------
EXTENDS WriterImpl, TLC, Json
CONSTANTS MaxDepth
VARIABLE h
MCNd == {"image", "mask", "trace", "trace/fl1_raw", "trace/fl1_median"}
MCRagged == {"contour"}
FeatsA == {"image", "contour"}
FeatsB == {"deform", "mask"}
FeatsC == {"trace", "fl1_max"}
\* the index feature: whatever is handed to the writer, the file enumerates 1..N
FeatsD == {"index", "deform"}
\* two channels of the trace feature written separately (store_feature("trace",
\* {channel: data})): each channel is a feature of its own, also in replace mode
FeatsE == {"trace/fl1_raw", "trace/fl1_median"}
FeatsAll == {"image", "contour", "deform", "mask", "trace", "fl1_max", "index"}
NoFeats == {}
NoLogs == {}
Logs1 == {"log"}
AllModes == {"append", "replace", "reset"}
\* "unicode140": 140 UTF-8 bytes in 73 characters (more bytes than characters,
\* beyond the default width)
AllClasses == {"short", "exact100", "long150", "unicode", "unicode140", "bytes"}
SizesQ == {1, 9, 10, 11}
SizesT == {1, 9, 10, 11, 21}
SizesD == {1, 2, 3, 4, 7}
NoSizes == {}
Depth == TLCGet("level") <= MaxDepth
\* histories (spec level): printed when the writer is closed at the depth bound
\* or the depth bound is reached while open (the adapter closes it)
HInit == WInit /\ h = <<>> /\ disk = 0 /\ rag = 0 /\ counter = 0 /\ width = 0 /\ tdisk = 0
HNext == WNext /\ h' = Append(h, [step |-> last', content |-> content', logs |-> logs'])
         /\ UNCHANGED <<disk, rag, counter, width, tdisk>>
Emit == (Len(h) = MaxDepth) => PrintT(<<"H", ToJson(h)>>)
\* skip histories that open and close without doing anything in between
Useful == ~(last.a = "close" /\ Len(h) >= 2 /\ h[Len(h) - 1].step.a = "open")
HCon == Len(h) <= MaxDepth /\ Useful /\ Emit
DInit == ImplInit /\ h = <<>>
DNext == ImplNext /\ UNCHANGED h
=============================================================================
