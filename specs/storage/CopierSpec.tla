--------------------------------- MODULE CopierSpec ---------------------------------
(***************************************************************************)
(* C08: compress, repack, condense (and tdms2rtdc) preserve dataset        *)
(* content.                                                                *)
(*                                                                         *)
(* An input file is described by the storage layout of its HDF5 datasets   *)
(* (the descriptor applies to the scalar feature, the image feature and    *)
(* the log alike): storage, compression filter, chunk length relative to   *)
(* the data length, data length class, string kind of logs.  A pipeline is *)
(* a sequence of tasks with options.  Specification: after every task the  *)
(* output holds value-identical features, logs, tables, metadata and basin *)
(* definitions (minus what was stripped on request, plus the command log); *)
(* the input is unchanged; compress/repack applied to their own output     *)
(* change no data.  CopyRoute transcribes the case analysis of h5ds_copy;  *)
(* TLC checks that every route preserves the values (an empty dataset may  *)
(* be dropped: it holds no values).                                        *)
(***************************************************************************)
EXTENDS Integers, Sequences, FiniteSets, TLC, Json

Storages == {"contiguous", "chunked"}
Filters == {"none", "gzip", "lzf", "zstd1", "zstd5", "zstd9"}
ChunkRels == {"smaller", "equal", "larger"}
\* "large": enough events that a dataset written without explicit chunks is
\* split into several chunks by HDF5 with a remainder (blockwise copies)
Lens == {"zero", "one", "many", "large"}
StrKinds == {"fixed", "vlen"}
Tasks == {"compress", "repack", "repack-strip-logs", "repack-strip-basins",
          "condense", "condense-no-ancillary", "condense-no-basin-features"}

Descr == [storage : Storages, filter : Filters, chunk : ChunkRels, len : Lens,
          str : StrKinds]
\* layouts HDF5 can actually hold
Valid(d) ==
    /\ d.storage = "contiguous" => (d.filter = "none" /\ d.chunk = "equal")
    /\ d.len = "zero" => d.storage = "chunked"      \* empty needs a resizable (chunked) dataset
    /\ (d.chunk = "larger") => d.storage = "chunked"
    /\ (d.chunk = "smaller") => d.len \in {"many", "large"}

ProperlyCompressed(d) == d.filter \in {"zstd5", "zstd9"}

\* the route h5ds_copy takes for one dataset (isString: a log)
CopyRoute(d, ensure, isString) ==
    IF ~ensure \/ ProperlyCompressed(d) THEN "raw object copy"
    ELSE IF d.len = "zero" THEN "skipped"
    ELSE IF isString /\ d.str = "vlen" THEN "convert to fixed-length, write at once"
    ELSE IF d.storage = "contiguous" THEN "write at once"
    ELSE "copy chunk by chunk"

\* which routes preserve the values
Preserves(route, d) == route # "skipped" \/ d.len = "zero"

\* what else the input holds besides features, image, mask, log, table, user
\* metadata, a file basin and an internal basin:
\*   defective-time / defective-aspect: a stored feature that dclab treats as
\*     defective (float32 time with frame data; aspect written by ShapeIn
\*     2.0.6) - the dataset exposes the recomputed feature instead
\*   unknown-feature: an extra dataset under /events with an undefined name
\*   nan-values: a stored feature with invalid values (and, as in all inputs, no
\*     stored summaries): what the feature reports as minimum, maximum and mean
\*     is the same before and after
\*   sibling-output: plain content; the output of the first task is requested next
\*     to the input under the input's stem with another suffix (in.tmp): the task
\*     appends .rtdc and the input is left alone
\*   mapped-basin: a file basin with twice the events and a mapping feature
\*   nonscalar-internal-basin: an internal basin that offers only an
\*     image-shaped feature, whose definition precedes the file basin's
Extras == {"plain", "defective-time", "defective-aspect", "unknown-feature",
           "nan-values", "sibling-output", "mapped-basin", "nonscalar-internal-basin"}
\* stored datasets the copy need not carry over (the dataset-level features
\* must agree all the same)
NotCarried(x) == CASE x = "defective-time" -> {"time"}
                   [] x = "defective-aspect" -> {"aspect"}
                   [] x = "unknown-feature" -> {"peter"}
                   [] OTHER -> {}

VARIABLES descr, pipe, extra

Init == /\ descr \in {d \in Descr : Valid(d)}
        /\ pipe \in UNION {[1..k -> Tasks] : k \in 1..2}
        \* the second task of a pipeline always reads the first task's output
        \* layout, so the (expensive) large inputs are run through one task
        /\ descr.len = "large" => Len(pipe) = 1
        /\ extra \in Extras
        \* the extras are independent of the layout: explored on two layouts
        /\ extra # "plain" =>
              /\ descr.len = "many" /\ descr.str = "fixed" /\ descr.chunk = "equal"
              /\ descr.filter \in {"none", "zstd5"}
Next == UNCHANGED <<descr, pipe, extra>>

EveryRoutePreserves ==
    \A ensure \in BOOLEAN, isString \in BOOLEAN :
        Preserves(CopyRoute(descr, ensure, isString), descr)

\* expectations for the adapter
Stripped(t) == CASE t = "repack-strip-logs" -> {"logs"}
                 [] t = "repack-strip-basins" -> {"basins"}
                 [] OTHER -> {}
Emit == PrintT(<<"H", ToJson([descr |-> descr, pipe |-> pipe, extra |-> extra,
                              notcarried |-> NotCarried(extra),
                              stripped |-> [i \in 1..Len(pipe) |-> Stripped(pipe[i])],
                              routes |-> [feature |-> CopyRoute(descr, TRUE, FALSE),
                                          log |-> CopyRoute(descr, TRUE, TRUE)]])>>)
=============================================================================
