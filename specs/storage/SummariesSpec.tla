------------------------------ MODULE SummariesSpec ------------------------------
(***************************************************************************)
(* C20: the quick summaries a scalar feature reports (min, max, mean)      *)
(* equal the NaN-ignoring minimum, maximum and mean of its actual values,  *)
(* however the file was produced.                                          *)
(*                                                                         *)
(* State: the feature's values `data` (integers, NaN, +inf) and the summary    *)
(* attributes stored next to them (`attrs`, absent = has |-> FALSE); the   *)
(* reader reports the stored attribute when present and computes from the  *)
(* data otherwise, so the property is the invariant StoredCorrect.  The    *)
(* production actions are dclab's write paths; their effect on `attrs` is  *)
(* the transcription of writer.write_ndarray / copier.rtdc_copy (one       *)
(* action per public call).  CountValid = FALSE is the running mean as     *)
(* found at the pinned commit (weighted by block sizes incl. NaNs).        *)
(***************************************************************************)
EXTENDS Rat, Sequences, FiniteSets

CONSTANTS Vals,        \* finite integer values a feature may take
          MaxLen,      \* bound on Len(data)
          MaxBlock,    \* bound on the block written by one call
          CopyKinds,   \* which copying tools are explored
          CountValid,  \* repaired running mean
          WithInf      \* the value alphabet includes +infinity

NaN == 99
Inf == 98
V == Vals \cup {NaN} \cup (IF WithInf THEN {Inf} ELSE {})

\* +infinity among the rationals (only +infinity is modelled, so inf - inf
\* never arises; inf * 0 is NaN as in IEEE arithmetic)
RInf == <<1, 0>>
IsInf(r) == r = RInf
XNaN(r) == r = RNaN
XAdd(a, b) == IF XNaN(a) \/ XNaN(b) THEN RNaN
              ELSE IF IsInf(a) \/ IsInf(b) THEN RInf ELSE RAdd(a, b)
XMul(a, b) == IF XNaN(a) \/ XNaN(b) THEN RNaN
              ELSE IF IsInf(a) \/ IsInf(b)
                   THEN (IF a = <<0, 1>> \/ b = <<0, 1>> THEN RNaN ELSE RInf)
                   ELSE RMul(a, b)
XDivInt(a, k) == IF XNaN(a) \/ k = 0 THEN RNaN
                 ELSE IF IsInf(a) THEN RInf ELSE RDivInt(a, k)
XLess(a, b) == IF IsInf(a) THEN FALSE ELSE IF IsInf(b) THEN TRUE ELSE RLess(a, b)

VARIABLES data,        \* Seq(V): the stored values
          attrs,       \* [has, min, max, mean]: stored summaries (rationals)
          valid,       \* writer instance's count of non-NaN values, -1 unknown
          resizable,   \* the dataset can still be appended to
          last         \* last production step (for histories)

svars == <<data, attrs, valid, resizable, last>>

\* ---------------- the definition: NaN-ignoring statistics ----------------
FiniteIdx(s) == {i \in 1..Len(s) : s[i] # NaN}
RECURSIVE SumOver(_, _)
SumOver(s, I) == IF I = {} THEN 0
                 ELSE LET i == CHOOSE j \in I : TRUE IN s[i] + SumOver(s, I \ {i})
\* (FiniteIdx: the values that are not NaN; +infinity is a value)
RealIdx(s) == {i \in FiniteIdx(s) : s[i] # Inf}
HasInf(s) == \E i \in FiniteIdx(s) : s[i] = Inf
NanMin(s) == IF FiniteIdx(s) = {} THEN RNaN
             ELSE IF RealIdx(s) = {} THEN RInf
             ELSE FromInt(CHOOSE v \in {s[i] : i \in RealIdx(s)} :
                            \A j \in RealIdx(s) : v <= s[j])
NanMax(s) == IF FiniteIdx(s) = {} THEN RNaN
             ELSE IF HasInf(s) THEN RInf
             ELSE FromInt(CHOOSE v \in {s[i] : i \in FiniteIdx(s)} :
                            \A j \in FiniteIdx(s) : v >= s[j])
NanMean(s) == IF FiniteIdx(s) = {} THEN RNaN
              ELSE IF HasInf(s) THEN RInf
              ELSE Norm(SumOver(s, FiniteIdx(s)), Cardinality(FiniteIdx(s)))
Stats(s) == [has |-> TRUE, min |-> NanMin(s), max |-> NanMax(s), mean |-> NanMean(s)]
NoAttrs == [has |-> FALSE, min |-> RNaN, max |-> RNaN, mean |-> RNaN]

\* what the feature object reports (reader: stored attribute first)
Reported == IF attrs.has THEN attrs ELSE Stats(data)

\* ------------------------------- the property -------------------------------
StoredCorrect ==
    data # <<>> =>
        /\ Reported.min = NanMin(data)
        /\ Reported.max = NanMax(data)
        /\ Reported.mean = NanMean(data)

\* --------------------------- production actions ---------------------------
Blocks == UNION {[1..k -> V] : k \in 1..MaxBlock}

\* nan-aware combination used by the writer: ufunc([a, b])
Min2(a, b) == IF XNaN(a) THEN b ELSE IF XNaN(b) THEN a ELSE IF XLess(b, a) THEN b ELSE a
Max2(a, b) == IF XNaN(a) THEN b ELSE IF XNaN(b) THEN a ELSE IF XLess(a, b) THEN b ELSE a

NValid(s) == Cardinality(FiniteIdx(s))

\* running mean of write_ndarray
RunMean(meanA, numA, blk) ==
    LET meanB == NanMean(blk)
        numB == IF CountValid THEN NValid(blk) ELSE Len(blk)
    IN  IF CountValid /\ numA = 0 THEN meanB
        ELSE IF CountValid /\ numB = 0 THEN meanA
        ELSE XDivInt(XAdd(XMul(meanA, FromInt(numA)), XMul(meanB, FromInt(numB))),
                     numA + numB)

Init == /\ data = <<>> /\ attrs = NoAttrs /\ valid = 0 /\ resizable = TRUE
        /\ last = [a |-> "init"]

\* store_feature in append mode (any writer instance)
AppendBlock(blk) ==
    /\ Len(data) + Len(blk) <= MaxLen
    /\ resizable /\ UNCHANGED resizable
    /\ data' = data \o blk
    /\ LET numA == IF CountValid
                   THEN (IF valid >= 0 THEN valid ELSE NValid(data))
                   ELSE Len(data)
       IN  attrs' = IF data = <<>> \/ ~attrs.has
                    THEN Stats(data')          \* first call: ufunc(dset)
                    ELSE [has |-> TRUE,
                          min |-> Min2(attrs.min, NanMin(blk)),
                          max |-> Max2(attrs.max, NanMax(blk)),
                          mean |-> RunMean(attrs.mean, numA, blk)]
    /\ valid' = NValid(data')
    /\ last' = [a |-> "append", blk |-> blk]

\* the writer is closed and a new one opened on the same file
Reopen == /\ data # <<>> /\ valid # -1
          /\ valid' = -1
          /\ UNCHANGED <<data, attrs, resizable>>
          /\ last' = [a |-> "reopen"]

\* store_feature in replace mode: the dataset is deleted and written anew
ReplaceBlock(blk) ==
    /\ data # <<>>
    /\ data' = blk /\ attrs' = Stats(blk) /\ valid' = NValid(blk)
    /\ resizable' = TRUE
    /\ last' = [a |-> "replace", blk |-> blk]

\* the summaries are missing (file written by other software)
StripAttrs == /\ attrs.has
              /\ attrs' = NoAttrs /\ UNCHANGED <<data, valid, resizable>>
              /\ last' = [a |-> "strip"]

\* compress / repack / condense / export: values are copied; rtdc_copy keeps
\* stored summaries and completes missing ones from the data.  Datasets
\* produced by the copier have a fixed size (appending to them is refused by
\* HDF5, which is outside this property); the exporter uses the writer.
Copy(kind) == /\ data # <<>>
              /\ attrs' = IF attrs.has THEN attrs ELSE Stats(data)
              /\ valid' = -1 /\ UNCHANGED data
              /\ resizable' = (kind = "export")
              /\ last' = [a |-> "copy", kind |-> kind]

Next == \/ \E b \in Blocks : AppendBlock(b) \/ ReplaceBlock(b)
        \/ Reopen \/ StripAttrs
        \/ \E k \in CopyKinds : Copy(k)

Spec == Init /\ [][Next]_svars
=============================================================================
