-------------------------------- MODULE ExportSpec --------------------------------
(***************************************************************************)
(* C02: an export contains exactly the selected events, in order.          *)
(*                                                                         *)
(* The source has the events 1..n (tokens); `mask` is the active filter.   *)
(* Spec: the exported sequence is the source restricted to the mask (all   *)
(* events when filtering is off), for every requested feature alike.       *)
(* Impl: yield_filtered_array_stacks - the selection is handed to the      *)
(* writer as a sequence of stacks; the "fast" route slices with index      *)
(* arrays (len // C full stacks + the rest), the "slow" route fills a      *)
(* reused buffer of C rows and yields it when full, then the filled part.  *)
(***************************************************************************)
EXTENDS Integers, Sequences, FiniteSets

CONSTANTS MaxN,      \* sources have 0..MaxN events
          Chunks     \* chunk lengths explored

VARIABLES n, mask, filtered, c

evars == <<n, mask, filtered, c>>

\* ------------------------------ specification ------------------------------
Src == [i \in 1..n |-> i]
Exported == IF filtered THEN SelectSeq(Src, LAMBDA e : e \in mask) ELSE Src

\* ------------------------------ implementation ------------------------------
Indices == SelectSeq(Src, LAMBDA e : e \in mask)     \* np.where(filtarr)[0]

RECURSIVE Concat(_)
Concat(ss) == IF ss = <<>> THEN <<>> ELSE Head(ss) \o Concat(Tail(ss))

\* fast route
FastStacks ==
    LET k == Len(Indices) \div c
        full == [j \in 1..k |-> SubSeq(Indices, c * (j - 1) + 1, c * j)]
        stop == c * k
    IN  IF stop < Len(Indices)
        THEN Append(full, SubSeq(Indices, stop + 1, Len(Indices)))
        ELSE full

\* slow route: buffer of c rows, write position jj (0-based), yielded stacks
RECURSIVE Slow(_, _, _, _)
Slow(rest, buf, jj, out) ==
    IF rest = <<>>
    THEN IF jj > 0 THEN Append(out, SubSeq(buf, 1, jj)) ELSE out
    ELSE LET b2 == [buf EXCEPT ![jj + 1] = Head(rest)]
         IN  IF (jj + 1) % c = 0
             THEN Slow(Tail(rest), b2, 0, Append(out, b2))
             ELSE Slow(Tail(rest), b2, jj + 1, out)
SlowStacks == Slow(Indices, [i \in 1..c |-> 0], 0, <<>>)

Init == /\ n \in 0..MaxN
        /\ mask \in SUBSET (1..n)
        /\ filtered \in BOOLEAN
        /\ c \in Chunks
Next == UNCHANGED evars

\* what must hold: both routes deliver exactly the selection, no stack is
\* longer than a chunk, no empty stack is handed to the writer
StacksCorrect ==
    /\ Concat(FastStacks) = Indices
    /\ Concat(SlowStacks) = Indices
    /\ \A i \in 1..Len(FastStacks) : Len(FastStacks[i]) \in 1..c
    /\ \A i \in 1..Len(SlowStacks) : Len(SlowStacks[i]) \in 1..c
ExportIsSelection ==
    filtered => Exported = Indices
=============================================================================
