------------------------------- MODULE DefectSpec -------------------------------
(***************************************************************************)
(* Beyond the listed properties (X03): which stored features of an .rtdc   *)
(* file are disregarded as defective.                                      *)
(*                                                                         *)
(* A file records the software that wrote it as a pipeline "recorder |     *)
(* dclab x | dclab y".  Documented rules (docstrings of feat_defect.py,    *)
(* issues 141, 212, 224):                                                  *)
(*   aspect   - written by Shape-In 2.0.6 / 2.0.7 (and not processed since)*)
(*   time     - can be recomputed (frame + frame rate) and is stored as    *)
(*              float32, or went through Shape-In and was last written by  *)
(*              dclab < 0.47.6                                             *)
(*   volume   - last written by dclab < 0.37.0 and not repaired (log       *)
(*              dclab_issue_141)                                           *)
(*   inert_ratio_prnc, tilt - image wider than 500 px and last written by  *)
(*              dclab < 0.48.3                                             *)
(*   inert_ratio_raw, inert_ratio_cvx - as before, unless recorded by      *)
(*              Shape-In >= 2.0.5 (named in the version string, or         *)
(*              witnessed by the shapein-acquisition log)                  *)
(* A defective stored feature is not offered as a stored feature.  Every   *)
(* case of the table (versions on both sides of every threshold) is        *)
(* enumerated and materialised as a file.                                  *)
(***************************************************************************)
EXTENDS Integers, Sequences, FiniteSets, TLC, Json

Less(v, w) == \/ v[1] < w[1]
              \/ v[1] = w[1] /\ v[2] < w[2]
              \/ v[1] = w[1] /\ v[2] = w[2] /\ v[3] < w[3]

SIVers == {<<2, 0, 4>>, <<2, 0, 5>>, <<2, 0, 6>>, <<2, 0, 7>>, <<2, 4, 0>>}
PlainVers == {<<2, 0, 4>>, <<2, 5, 1>>}
DCVers == {<<0, 36, 1>>, <<0, 37, 0>>, <<0, 47, 5>>, <<0, 47, 6>>, <<0, 48, 2>>,
           <<0, 48, 3>>, <<0, 62, 0>>}
Recorders == [sw : {"ShapeIn"}, v : SIVers] \cup [sw : {"plain"}, v : PlainVers]
             \cup [sw : {"other"}, v : {<<1, 0, 0>>}]
DclabSteps == [sw : {"dclab"}, v : DCVers]
StepSeqs == {<<>>} \cup {<<a>> : a \in DclabSteps}
            \cup {<<a, b>> : a \in DclabSteps, b \in DclabSteps}
Pipelines == {<<>>} \cup StepSeqs
             \cup {<<r>> \o s : r \in Recorders, s \in StepSeqs}
Logs == {"dclab_issue_141", "shapein-acquisition"}
Stored == {"aspect", "time", "volume", "inert_ratio_cvx", "inert_ratio_prnc",
           "inert_ratio_raw", "tilt"}

VARIABLES pipe, width, logs, f32, frame, rate
dvars == <<pipe, width, logs, f32, frame, rate>>

Last == pipe[Len(pipe)]
LastDclabBelow(t) == Len(pipe) > 0 /\ Last.sw = "dclab" /\ Less(Last.v, t)
WentThroughShapeIn == \E i \in 1..Len(pipe) : pipe[i].sw = "ShapeIn"

DefAspect == Len(pipe) = 1 /\ pipe[1].sw = "ShapeIn"
             /\ pipe[1].v \in {<<2, 0, 6>>, <<2, 0, 7>>}
DefTime == /\ frame /\ rate = "set"
           /\ \/ f32
              \/ WentThroughShapeIn /\ LastDclabBelow(<<0, 47, 6>>)
DefVolume == "dclab_issue_141" \notin logs /\ LastDclabBelow(<<0, 37, 0>>)
DefInert == width > 500 /\ LastDclabBelow(<<0, 48, 3>>)
TrustedRecorder ==
    /\ Len(pipe) > 0
    /\ \/ pipe[1].sw = "ShapeIn"
       \/ pipe[1].sw = "plain" /\ "shapein-acquisition" \in logs
    /\ ~Less(pipe[1].v, <<2, 0, 5>>)
DefInertRawCvx == DefInert /\ ~TrustedRecorder

Defective == (IF DefAspect THEN {"aspect"} ELSE {})
        \cup (IF DefTime THEN {"time"} ELSE {})
        \cup (IF DefVolume THEN {"volume"} ELSE {})
        \cup (IF DefInert THEN {"inert_ratio_prnc", "tilt"} ELSE {})
        \cup (IF DefInertRawCvx THEN {"inert_ratio_raw", "inert_ratio_cvx"} ELSE {})

Init == /\ pipe \in Pipelines
        /\ width \in {250, 500, 501}
        /\ logs \in SUBSET Logs
        \* the acquisition log comes with Shape-In recordings only
        /\ "shapein-acquisition" \in logs =>
              Len(pipe) > 0 /\ pipe[1].sw \in {"ShapeIn", "plain"}
        /\ f32 \in BOOLEAN
        /\ frame \in BOOLEAN
        /\ rate \in {"absent", "zero", "set"}
        /\ ~frame => rate = "set"
Next == UNCHANGED dvars

\* ------------------------------ properties ------------------------------
\* a file that the current version wrote last has no defective feature
\* except a float32 time
CurrentIsClean ==
    (Len(pipe) > 0 /\ Last = [sw |-> "dclab", v |-> <<0, 62, 0>>]) =>
        Defective \subseteq {"time"}
\* the raw / convex-hull ratios are never disregarded without the others
RawCvxImpliesPrnc ==
    ("inert_ratio_raw" \in Defective) => ("inert_ratio_prnc" \in Defective)

Emit == PrintT(<<"H", ToJson([pipe |-> pipe, width |-> width, logs |-> logs,
                              f32 |-> f32, frame |-> frame, rate |-> rate,
                              innate |-> Stored \ Defective])>>)
=============================================================================
