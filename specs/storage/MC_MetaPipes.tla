--------------------------------- MODULE MC_MetaPipes ---------------------------------
(* storage pipelines for C11: sequences of storage steps applied to a file that holds *)
(* every known metadata key with payload variant v; expected result: unchanged values *)
EXTENDS Integers, Sequences, TLC, Json
CONSTANTS MaxLen, Variants
Steps == {"write_read", "export", "compress", "repack", "text"}
VARIABLES pipe, v
Init == /\ pipe \in UNION {[1..k -> Steps] : k \in 1..MaxLen}
        /\ v \in Variants
Next == UNCHANGED <<pipe, v>>
Emit == PrintT(<<"H", ToJson([pipe |-> pipe, variant |-> v])>>)
=============================================================================
