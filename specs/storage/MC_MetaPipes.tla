--------------------------------- MODULE MC_MetaPipes ---------------------------------
(* storage pipelines for C11: sequences of storage steps applied to a file that holds *)
(* every known metadata key with payload variant v; expected result: unchanged values *)
EXTENDS Integers, Sequences, TLC, Json
CONSTANTS MaxLen, Variants
\* "rewrite": a second writer session (append mode) stores the next payload variant
\* over the existing keys (values of other types included); expected afterwards:
\* the values of that variant, as if they had been written to a new file
Steps == {"write_read", "export", "compress", "repack", "text", "rewrite"}
VARIABLES pipe, v
Init == /\ pipe \in UNION {[1..k -> Steps] : k \in 1..MaxLen}
        /\ v \in Variants
Next == UNCHANGED <<pipe, v>>
Emit == PrintT(<<"H", ToJson([pipe |-> pipe, variant |-> v])>>)
=============================================================================
