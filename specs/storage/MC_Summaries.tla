------------------------------ MODULE MC_Summaries ------------------------------
EXTENDS SummariesSpec, TLC, Json
CONSTANTS MaxDepth
VARIABLE h
MCVals == {-2, 0, 1, 3}
MCValsSmall == {-2, 3}
\* with +infinity in the alphabet: one finite value next to NaN and +inf
MCValsOne == {3}
KindsAll == {"compress", "repack", "condense", "export"}
KindsQuick == {"compress", "export"}
MCValsBig == {-2, -1, 0, 1, 2, 3}
HInit == Init /\ h = <<>>
HNext == Next /\ h' = Append(h, [step |-> last', data |-> data',
                                 min |-> NanMin(data'), max |-> NanMax(data'),
                                 mean |-> NanMean(data')])
\* every history (all lengths): the adapter observes only where the writer is
\* closed anyway and at the end, so that one writer instance really spans
\* consecutive appends; shorter histories cover the intermediate states
Emit == (Len(h) >= 1) => PrintT(<<"H", ToJson(h)>>)
HCon == Len(h) <= MaxDepth /\ Emit
\* design-level run without history
DInit == Init /\ h = <<>>
DNext == Next /\ UNCHANGED h
=============================================================================
