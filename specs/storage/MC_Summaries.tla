------------------------------ MODULE MC_Summaries ------------------------------
EXTENDS SummariesSpec, TLC, Json
CONSTANTS MaxDepth
VARIABLE h
MCVals == {-2, 0, 1, 3}
MCValsSmall == {-2, 3}
MCValsBig == {-2, -1, 0, 1, 2, 3}
HInit == Init /\ h = <<>>
HNext == Next /\ h' = Append(h, [step |-> last', data |-> data',
                                 min |-> NanMin(data'), max |-> NanMax(data'),
                                 mean |-> NanMean(data')])
\* complete histories: the depth bound is reached or nothing more fits
Emit == (Len(h) = MaxDepth) => PrintT(<<"H", ToJson(h)>>)
HCon == Len(h) <= MaxDepth /\ Emit
\* design-level run without history
DInit == Init /\ h = <<>>
DNext == Next /\ UNCHANGED h
=============================================================================
