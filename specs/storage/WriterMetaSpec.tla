------------------------------ MODULE WriterMetaSpec ------------------------------
(***************************************************************************)
(* C01, metadata write calls: what a file says about a metadata key is the *)
(* value of the last store_metadata call that named the key, in the        *)
(* documented type of the key (user-defined keys: the type of the value).  *)
(*                                                                         *)
(* A stored value is a payload variant (1..): the adapter maps (key,       *)
(* variant) to a concrete Python value; different variants of a key have   *)
(* different Python types (int / float / str / bool), so a second call     *)
(* that names an existing key replaces value AND type.  0 = key absent.    *)
(* Metadata calls do not depend on the writer mode: "append" and "replace" *)
(* both overwrite the named keys and leave the others; only opening in     *)
(* "reset" mode discards what the file had.                                *)
(***************************************************************************)
EXTENDS Integers, Sequences, FiniteSets, TLC, Json

CONSTANTS Keys,        \* key classes (adapter: section + key name)
          Variants,    \* payload variants 1..
          KeySets,     \* sets of keys one store_metadata call names
          Modes,
          MaxDepth

VARIABLES open, mode,
          meta,        \* [Keys -> Variants \cup {0}]: what the file must say
          h            \* history for the replay

mvars == <<open, mode, meta, h>>

Rec(step) == [step |-> step, meta |-> meta']

MInit == open = FALSE /\ mode = "none" /\ meta = [k \in Keys |-> 0] /\ h = <<>>

Open(m) ==
    /\ ~open /\ open' = TRUE /\ mode' = m
    /\ meta' = IF m = "reset" THEN [k \in Keys |-> 0] ELSE meta
    /\ h' = Append(h, Rec([a |-> "open", mode |-> m]))

\* store_metadata({k: value(k, v) for k in ks})
StoreMeta(ks, v) ==
    /\ open
    /\ meta' = [k \in Keys |-> IF k \in ks THEN v ELSE meta[k]]
    /\ UNCHANGED <<open, mode>>
    /\ h' = Append(h, Rec([a |-> "storemeta", keys |-> ks, v |-> v]))

Close ==
    /\ open /\ open' = FALSE
    /\ UNCHANGED <<mode, meta>>
    /\ h' = Append(h, Rec([a |-> "close"]))

MNext ==
    \/ \E m \in Modes : Open(m)
    \/ \E ks \in KeySets, v \in Variants : StoreMeta(ks, v)
    \/ Close

\* ------------------------------ properties ------------------------------
\* last write wins, key by key; nothing else changes a key but a reset
LastWriteWins ==
    [][\A k \in Keys : meta'[k] # meta[k] =>
            \/ (h'[Len(h')].step.a = "storemeta" /\ k \in h'[Len(h')].step.keys
                /\ meta'[k] = h'[Len(h')].step.v)
            \/ (h'[Len(h')].step.a = "open" /\ h'[Len(h')].step.mode = "reset"
                /\ meta'[k] = 0)]_mvars
\* a key that was written is there until a reset
NeverLost ==
    [][\A k \in Keys : (meta[k] # 0 /\ meta'[k] = 0) => mode' = "reset"]_mvars

\* ------------------------------ instance ------------------------------
MCKeys == {"user count", "user label", "user mixed", "filter min", "qpi scale",
           "run index", "pixel size", "sample"}
UserKeys == {"user count", "user label", "user mixed"}
MCKeySets == {MCKeys, UserKeys, MCKeys \ UserKeys, {"user mixed", "qpi scale"}}
AllModes == {"append", "replace", "reset"}
\* skip sessions that open and close without a call in between
Useful == ~(Len(h) >= 2 /\ h[Len(h)].step.a = "close" /\ h[Len(h) - 1].step.a = "open")
Emit == (Len(h) = MaxDepth) => PrintT(<<"H", ToJson(h)>>)
HCon == Len(h) <= MaxDepth /\ Useful /\ Emit
=============================================================================
