------------------------------- MODULE ConfigSpec -------------------------------
(***************************************************************************)
(* Beyond the listed properties (X04): configurations are independent maps.*)
(*                                                                         *)
(* Two configuration objects A and B (a dataset's configuration and a copy *)
(* of it, as used for hierarchy children, exports and session files).      *)
(* Each is a map from (section, key) to a value; list values can be        *)
(* changed in place.  copy() yields an independent configuration: no later *)
(* assignment, removal or in-place change of a list on one side shows on   *)
(* the other.  update() assigns every key of the other configuration and   *)
(* leaves the remaining keys alone.                                        *)
(***************************************************************************)
EXTENDS Integers, Sequences, FiniteSets, TLC, Json

CONSTANTS MaxDepth

Cfgs == {"A", "B"}
ScalarKeys == {"setup:channel width", "user:note"}
ListKeys == {"filtering:polygon filters", "user:list"}
Keys == ScalarKeys \cup ListKeys
ScalarVals == {1, 2}
\* values are integer sequences: <<-1>> absent, <<-2, v>> the scalar v,
\* <<0, i1, i2, ...>> the list of the items i1, i2, ...
Absent == <<-1>>
Scalar(v) == <<-2, v>>
EmptyList == <<0>>

VARIABLES shared,  \* list keys whose value objects may be shared after update()
          val,     \* [Cfgs -> [Keys -> value]]
          nextItem,
          h
cvars == <<shared, val, nextItem, h>>

Other(c) == IF c = "A" THEN "B" ELSE "A"
Rec(step) == [step |-> step, obs |-> val']

\* a new configuration holds an empty polygon filter list by default
Fresh == [k \in Keys |-> IF k = "filtering:polygon filters" THEN EmptyList ELSE Absent]

CInit == shared = {} /\ val = [c \in Cfgs |-> Fresh] /\ nextItem = 1 /\ h = <<>>

SetScalar(c, k, v) ==
    /\ val' = [val EXCEPT ![c][k] = Scalar(v)]
    /\ UNCHANGED <<nextItem, shared>>
    /\ h' = Append(h, Rec([a |-> "set", c |-> c, k |-> k, v |-> v]))

\* assign a new list with one fresh item
SetList(c, k) ==
    /\ val' = [val EXCEPT ![c][k] = <<0, nextItem>>]
    /\ nextItem' = nextItem + 1 /\ shared' = shared \ {k}
    /\ h' = Append(h, Rec([a |-> "setlist", c |-> c, k |-> k, item |-> nextItem]))

\* cfg[sec][key].append(item): in-place change of a list value
AppendItem(c, k) ==
    /\ val[c][k] # Absent /\ k \notin shared
    /\ val' = [val EXCEPT ![c][k] = Append(@, nextItem)]
    /\ nextItem' = nextItem + 1 /\ UNCHANGED shared
    /\ h' = Append(h, Rec([a |-> "append", c |-> c, k |-> k, item |-> nextItem]))

Pop(c, k) ==
    /\ val[c][k] # Absent /\ k # "filtering:polygon filters"
    /\ val' = [val EXCEPT ![c][k] = Absent]
    /\ UNCHANGED nextItem /\ shared' = shared \ {k}
    /\ h' = Append(h, Rec([a |-> "pop", c |-> c, k |-> k]))

\* c := other.copy()
CopyFrom(c) ==
    /\ val' = [val EXCEPT ![c] = val[Other(c)]]
    /\ UNCHANGED nextItem /\ shared' = {}
    /\ h' = Append(h, Rec([a |-> "copy", c |-> c]))

\* c.update(other)
UpdateFrom(c) ==
    /\ val' = [val EXCEPT ![c] = [k \in Keys |->
                  IF val[Other(c)][k] # Absent THEN val[Other(c)][k] ELSE val[c][k]]]
    \* update() assigns the other configuration's value objects: a list
    \* assigned this way is the same Python object on both sides (as with
    \* dict.update); in-place changes of such lists are not explored
    /\ shared' = shared \cup {k \in ListKeys : val[Other(c)][k] # Absent}
    /\ UNCHANGED nextItem
    /\ h' = Append(h, Rec([a |-> "update", c |-> c]))

CNext ==
    \E c \in Cfgs :
        \/ \E k \in ScalarKeys, v \in ScalarVals : SetScalar(c, k, v)
        \/ \E k \in ListKeys : SetList(c, k) \/ AppendItem(c, k)
        \/ \E k \in Keys : Pop(c, k)
        \/ CopyFrom(c) \/ UpdateFrom(c)

\* ------------------------------ properties ------------------------------
\* an operation on one configuration never changes the other one
Independent ==
    [][\A c \in Cfgs : val'[c] # val[c] => h'[Len(h')].step.c = c]_cvars

Emit == (Len(h) = MaxDepth) => PrintT(<<"H", ToJson(h)>>)
HCon == Len(h) <= MaxDepth /\ Emit
=============================================================================
