-------------------------------- MODULE WriterSpec --------------------------------
(***************************************************************************)
(* Property-level specification of the .rtdc writer API (C01).             *)
(*                                                                         *)
(* An event written to the file is a fresh token (integer id); every       *)
(* feature value of that event is a fixed injective encoding of the token  *)
(* (harness/gen.py), so "reopening the file yields exactly the written     *)
(* events in order and unchanged" is: content[f] = the sequence of tokens  *)
(* written to f under the semantics of the three writer modes.  Log lines  *)
(* are tokens <<class, id>> (class: short, exactly 100 bytes, longer than  *)
(* 100 bytes, non-ASCII, bytes object).  The specification knows nothing   *)
(* about chunks, resize, offsets, counters or string widths.               *)
(***************************************************************************)
EXTENDS Integers, Sequences, FiniteSets

CONSTANTS Feats,        \* feature kinds written in this instance
          Sizes,        \* numbers of events per store call
          LogNames,     \* names of logs
          LineClasses,  \* classes of log lines
          MaxLines,     \* lines per store_log call are 1..MaxLines
          Modes         \* writer modes explored

VARIABLES open,         \* a writer instance is open
          mode,         \* its mode
          content,      \* [Feats -> Seq(token)]
          logs,         \* [LogNames -> Seq(<<class, id>>)]
          nextTok,      \* next fresh token
          last          \* last call (for histories)

wvars == <<open, mode, content, logs, nextTok, last>>

Fresh(n) == [i \in 1..n |-> nextTok + i - 1]

WInit == /\ open = FALSE /\ mode = "none"
         /\ content = [f \in Feats |-> <<>>]
         /\ logs = [l \in LogNames |-> <<>>]
         /\ nextTok = 1
         /\ last = [a |-> "init"]

\* RTDCWriter(path, mode=m): "reset" discards everything in the file
Open(m) ==
    /\ ~open
    /\ open' = TRUE /\ mode' = m
    /\ content' = IF m = "reset" THEN [f \in Feats |-> <<>>] ELSE content
    /\ logs' = IF m = "reset" THEN [l \in LogNames |-> <<>>] ELSE logs
    /\ UNCHANGED nextTok
    /\ last' = [a |-> "open", mode |-> m]

\* store_feature(f, data for n new events)
Store(f, n) ==
    /\ open
    /\ content' = [content EXCEPT ![f] =
                      IF mode = "replace" THEN Fresh(n) ELSE @ \o Fresh(n)]
    /\ nextTok' = nextTok + n
    /\ UNCHANGED <<open, mode, logs>>
    /\ last' = [a |-> "store", f |-> f, n |-> n, first |-> nextTok]

\* store_log(name, lines): lines given by their classes
StoreLog(l, classes) ==
    /\ open
    /\ LET new == [i \in 1..Len(classes) |-> <<classes[i], nextTok + i - 1>>]
       IN  logs' = [logs EXCEPT ![l] = IF mode = "replace" THEN new ELSE @ \o new]
    /\ nextTok' = nextTok + Len(classes)
    /\ UNCHANGED <<open, mode, content>>
    /\ last' = [a |-> "storelog", l |-> l, classes |-> classes, first |-> nextTok]

\* the writer is closed (context exit): nothing stored changes
Close ==
    /\ open
    /\ open' = FALSE
    /\ UNCHANGED <<mode, content, logs, nextTok>>
    /\ last' = [a |-> "close", content |-> content, logs |-> logs]

LineSeqs == UNION {[1..k -> LineClasses] : k \in 1..MaxLines}

WNext ==
    \/ \E m \in Modes : Open(m)
    \/ \E f \in Feats, n \in Sizes : Store(f, n)
    \/ \E l \in LogNames, cs \in LineSeqs : StoreLog(l, cs)
    \/ Close

WSpec == WInit /\ [][WNext]_wvars

\* ------------------------------ properties ------------------------------
\* no token is ever stored twice or invented
NoDuplication ==
    \A f \in Feats : \A i, j \in 1..Len(content[f]) :
        i # j => content[f][i] # content[f][j]
Ordered == \A f \in Feats : \A i \in 1..(Len(content[f]) - 1) :
              content[f][i] < content[f][i + 1]
\* in append mode nothing already written is lost or moved
AppendOnly ==
    [][(open /\ open' /\ mode = "append") =>
          \A f \in Feats : /\ Len(content[f]) <= Len(content'[f])
                           /\ SubSeq(content'[f], 1, Len(content[f])) = content[f]]_wvars
=============================================================================
