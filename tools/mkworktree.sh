#!/bin/sh
# tools/mkworktree.sh <dir>: scratch worktree of /repo HEAD with the compiled extensions copied in
set -e
d="$1"
git -C /repo worktree add --detach "$d" HEAD >/dev/null 2>&1
cd /repo
for f in $(git ls-files --others --exclude-standard -i --exclude='*.so' 2>/dev/null; find dclab -name '*.so'); do
  mkdir -p "$d/$(dirname $f)"; cp "$f" "$d/$f"
done
echo "$d"
