#!/bin/sh
# tools/try_mutation.sh <src dir with patch.diff, demo.py, meta.json> <PID> [more PIDs]
# applies the patch in a fresh scratch worktree, runs the demo (must fail) and the
# given checks against that worktree (VERIF_REPO); the worktree is removed afterwards.
src="$1"; shift
wt=/tmp/wt_try_$$
/verif/tools/mkworktree.sh $wt >/dev/null
cd $wt
PYTHONPATH=$wt /venv/bin/python "$src/demo.py" >/dev/null 2>&1; echo "demo clean rc=$? (want 0)"
if ! git apply "$src/patch.diff"; then
  # patches made before later fix commits may need 3-way
  git apply --3way "$src/patch.diff" || echo "PATCH DOES NOT APPLY"
fi
PYTHONPATH=$wt /venv/bin/python "$src/demo.py" 2>&1 | tail -2; 
PYTHONPATH=$wt /venv/bin/python "$src/demo.py" >/dev/null 2>&1; echo "demo mutated rc=$? (want 1)"
cd /verif
for pid in "$@"; do
  mkdir -p /tmp/ev_$$; cp -r evidence /tmp/ev_$$/ 2>/dev/null
  VERIF_REPO=$wt ./check $pid --tier quick > /tmp/try_out_$$.txt 2>&1; rc=$?
  echo "check $pid rc=$rc"; grep -c "^VIOLATION" /tmp/try_out_$$.txt; grep -A1 "^VIOLATION" /tmp/try_out_$$.txt | cut -c1-260 | head -8
  grep "MACHINERY\|Traceback" /tmp/try_out_$$.txt | head -3
  cp /tmp/ev_$$/evidence/*.json evidence/ 2>/dev/null; rm -rf /tmp/ev_$$ /tmp/try_out_$$.txt
done
git -C /repo worktree remove --force $wt
