#!/usr/bin/env python3
"""Run dclab's test-suite (guard off) and compare with BASELINE stable_pass."""
import json
import subprocess
import sys
import xml.etree.ElementTree as ET

out = "/dev/shm/vp_baseline.junit.xml"
subprocess.run("cd /repo && /venv/bin/python -m pytest -ra -q -p no:cacheprovider "
               "--timeout=900 --continue-on-collection-errors -n 8 "
               "--junitxml=%s >/dev/shm/vp_baseline.log 2>&1" % out, shell=True)
base = json.load(open("/root/.vp/BASELINE.json"))
passed = set()
for tc in ET.parse(out).getroot().iter("testcase"):
    if not any(ch.tag in ("failure", "error", "skipped") for ch in tc):
        passed.add(tc.get("classname") + "::" + tc.get("name"))
missing = [t for t in base["stable_pass"] if t not in passed]
print("stable_pass:", len(base["stable_pass"]), "passed now:", len(passed),
      "missing:", len(missing))
for t in missing[:30]:
    print("  MISSING", t)
sys.exit(1 if missing else 0)
