#!/usr/bin/env python3
"""Regenerate /verif/MANIFEST.json from tools/registry.py and validate it."""
import json
import pathlib
import sys

HERE = pathlib.Path(__file__).resolve().parent
sys.path.insert(0, str(HERE))
import registry  # noqa: E402

VERIF = HERE.parent
props = [json.loads(x) for x in (VERIF / "properties.jsonl").read_text()
         .splitlines() if x.strip()]
repo_commits = (VERIF / "tools" / "hook_commits.txt")
checks = []
for p in props:
    c = registry.CHECKS.get(p["id"])
    if not c:
        continue
    checks.append({
        "property_id": p["id"],
        "quick_cmd": "./check %s --tier quick" % p["id"],
        "thorough_cmd": "./check %s --tier thorough" % p["id"],
        "evidence_file": "/verif/evidence/%s.json" % p["id"],
        "replay_cmd_template": "./check %s --replay {path}" % p["id"],
        "engine": "tlc-bound",
        "level_claimed": {"category": c["level"], "text": c["text"],
                          "design_ref": c["design_ref"]},
        "level_note": c["note"],
        "technique": c["technique"],
    })
na = []
for p in props:
    if p["id"] in registry.CHECKS:
        continue
    na.append({"property_id": p["id"],
               "reason": registry.NOT_APPLICABLE.get(p["id"],
                                                     registry.NOT_YET)})
m = {
 "version": 1,
 "setup_cmd": "./check setup",
 "hooks": {
  "guard": "DCLAB_VERIF",
  "enable": ("none needed: dclab is sequential and every action's "
             "linearisation point is the return of a public call; all "
             "instrumentation (recording wrappers, fake HTTP session, I/O "
             "interposer) is installed by the harness at run time; checks "
             "import dclab from /repo's working tree"),
  "baseline_off_cmd": ("cd /repo && /venv/bin/python -m pytest -ra -q "
                       "-p no:cacheprovider --timeout=900 "
                       "--continue-on-collection-errors"),
  "source_commits": [],
  "add_only": True},
 "engines": [{
  "name": "tlc-bound", "path": "/verif/check",
  "serves_properties": sorted(registry.CHECKS),
  "kind_free_text": ("explicit TLA+ specifications model-checked by TLC; "
                     "TLC-enumerated histories replayed into dclab; "
                     "recorded dclab traces validated by TLC")}],
 "checks": checks,
 "notes": ("See DESIGN.md. KNOWN_FINDINGS.json lists genuine defects "
           "(known / fixed). ./check <id> --tier quick|thorough."),
 "not_applicable": na,
}
(VERIF / "MANIFEST.json").write_text(json.dumps(m, indent=1) + "\n")
try:
    import jsonschema
    jsonschema.validate(m, json.load(open("/root/.vp/MANIFEST.schema.json")))
    print("manifest valid:", len(checks), "checks,", len(na), "not claimed")
except ImportError:
    print("manifest written (jsonschema not available)")
