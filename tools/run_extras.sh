#!/bin/sh
# checks beyond the listed properties (not in MANIFEST.json)
cd "$(dirname "$0")/.." || exit 2
rc=0
for x in X01 X02 X03 X04 X05; do ./check $x "$@" || rc=$?; done
exit $rc
