#!/bin/sh
# tools/regress_seeded.sh [name-prefix]: every kept seeded change must still be
# detected by the quick check of its property (fresh scratch worktree per change)
cd /verif
fail=0
for d in seeded/${1:-}*/; do d=${d%/}
  pid=$(python3 -c "import json,sys;print(json.load(open('$d/meta.json'))['property'])")
  out=$(tools/try_mutation.sh /verif/$d $pid 2>&1)
  rc=$(echo "$out" | grep "check $pid rc=" | sed 's/.*rc=//')
  ap=$(echo "$out" | grep -c "PATCH DOES NOT APPLY")
  echo "$(basename $d) $pid check_rc=$rc patch_failed=$ap"
  [ "$rc" = "1" ] || fail=1
done
exit $fail
