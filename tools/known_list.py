#!/usr/bin/env python3
"""known_list.py <PID>: one line per kept seeded change (for mutation prompts)"""
import json, pathlib, sys
pid = sys.argv[1]
out = []
for d in sorted(pathlib.Path('/verif/seeded').glob(pid + '-*')):
    m = json.load(open(d / 'meta.json'))
    out.append("(%d) %s" % (len(out) + 1, (m.get('summary') or '')[:230].replace('\n', ' ')))
print(" ".join(out))
