#!/bin/sh
# tools/regress_parallel.sh [shards]: regress_seeded.sh over all kept changes,
# in N parallel shards (round robin); logs /dev/shm/regress_shard_<k>.log
cd /verif
n=${1:-4}
ls seeded | grep -v "README\|REGRESSION" > /dev/shm/regress_all.txt
k=0
while [ $k -lt $n ]; do
  (
    i=0
    while read d; do
      if [ $((i % n)) -eq $k ]; then
        pid=$(python3 -c "import json;print(json.load(open('seeded/$d/meta.json'))['property'])")
        out=$(tools/try_mutation.sh /verif/seeded/$d $pid 2>&1)
        rc=$(echo "$out" | grep "check $pid rc=" | sed 's/.*rc=//')
        ap=$(echo "$out" | grep -c "PATCH DOES NOT APPLY")
        echo "$d $pid check_rc=$rc patch_failed=$ap"
      fi
      i=$((i+1))
    done < /dev/shm/regress_all.txt
    echo SHARD-DONE
  ) > /dev/shm/regress_shard_$k.log 2>&1 &
  k=$((k+1))
done
wait
