"""Single source for MANIFEST.json: one entry per claimed property.
Run `python3 tools/mkmanifest.py` after editing."""

CHECKS = {
 "C19": dict(
  level="model_checking",
  design_ref="DESIGN.md section 5, C19",
  text=("HttpFileSpec (property-level TLA+ spec of seek/tell/read) is the "
        "oracle; HttpFileImpl (transcription of read_range_cached/"
        "get_cache_chunk/download_range + RFC 7233 server model) is "
        "model-checked by TLC to refine it for all resources/chunk sizes/"
        "capacities in the bound; every history of the spec up to the depth "
        "bound is replayed on the real HTTPFile for every (chunk size, keep) "
        "configuration, and recorded random sessions plus h5py's own access "
        "pattern on generated .rtdc files are validated by TLC against "
        "HttpFileTrace. Exhaustive within the bound, which is the right "
        "level for a history/configuration-quantified property."),
  note=("HTTP server emulated in-process with RFC 7233 single-range "
        "semantics; S3/DCOR transports and real network faults are not "
        "covered (no endpoint in the sandbox); bounds: quick depth 3, "
        "thorough depth 4, chunk sizes 1..16, keep 1..5, resources 0..12 "
        "bytes for replay and up to ~100 kB for recorded traces."),
  technique="TLC model checking + spec-history replay + TLC trace validation",
 ),
 "C03": dict(
  level="model_checking",
  design_ref="DESIGN.md section 5, C03",
  text=("FilterSpec states the stateless meaning of the current filter "
        "settings (ranges, polygons, invalid removal, manual exclusions, "
        "enable flag, event limit with reproducibility memo) and is the only "
        "oracle; FilterImpl transcribes the incremental algorithm of "
        "Filter.update (settings diff, box/polygon caches) and TLC checks "
        "it against FilterSpec for all edit/apply interleavings in the "
        "bound; every (edit; apply)* history of the spec up to the depth "
        "bound on three data instances with NaN/inf/ties is replayed on a "
        "real dataset with real PolygonFilter objects; TLC-simulated deep "
        "schedules and long random sessions on 5..200-event datasets are "
        "executed, recorded and validated by TLC against FilterTrace "
        "(membership of every event decided inside TLC)."),
  note=("values and bounds exactly representable (integers / quarters); "
        "polygon edges never pass through data points (geometry is C15); "
        "two scalar features, two polygon filters with two shapes each; "
        "quick: 3 edit/apply pairs exhaustive + 2000 simulated schedules of "
        "depth 14 + 40 random sessions; thorough: 4 pairs + 40000 + 400."),
  technique="TLC model checking + spec-history replay + TLC trace validation",
 ),
 "C17": dict(
  level="model_checking",
  design_ref="DESIGN.md section 5, C17",
  text=("CacheSpec says every memoised call returns what a fresh "
        "computation returns (Fresh is injective on values, dtypes and "
        "shapes, not on memory layout or passing style) and is the oracle; "
        "CacheImpl transcribes the key function (typed/untyped), the FIFO "
        "eviction and result aliasing, and TLC checks ReturnsFresh and "
        "dictionary/key-list consistency over an adversarial argument pool "
        "(same bytes split differently, other dtype, other shape, strided, "
        "keyword) for all call/mutate histories in the bound. Every "
        "schedule of calls up to the depth bound is executed on the real "
        "memoised functions with capacity 2 and 3 and compared with the "
        "undecorated functions; long sessions run at capacity 100; "
        "FileHashSpec histories run on real files; every array the dataset "
        "interface hands out (dict/hdf5/hierarchy/basin) is modified in "
        "place and re-read."),
  note=("md5 assumed injective; file modifications are natural writes (size "
        "or mtime_ns changes); quick: schedules of depth 3 over 4 functions "
        "x 8 pool members, thorough depth 4; results compared by value, "
        "shape and dtype (or same exception type)."),
  technique="TLC model checking + spec-schedule replay against undecorated functions",
 ),
 "C20": dict(
  level="model_checking",
  design_ref="DESIGN.md section 5, C20",
  text=("SummariesSpec defines min/max/mean as exact rationals of the "
        "non-NaN values and models dclab's production steps (append blocks "
        "in any partition, writer re-opened, replace mode, summaries "
        "missing, compress/repack/condense/export) with the transcribed "
        "attribute update; TLC checks StoredCorrect for all histories in "
        "the bound (the size-weighted running mean as found yields the "
        "counterexample, the repaired one passes). All histories up to the "
        "depth bound are executed on real .rtdc files and after every step "
        "min()/max()/mean() of the HDF5 feature object and of a hierarchy "
        "child, and the stored values, are compared with TLC's rationals."),
  note=("values in {-2, 3, NaN} for replay ({-2,0,1,3,NaN} for the design "
        "run), blocks of length <= 2, quick depth 3 (every third history, "
        "offset by seed), thorough depth 4; float and uint32 features; "
        "join and basin readers are compared in the C09/C07 checks."),
  technique="TLC model checking + spec-history replay on real files",
 ),
 "C01": dict(
  level="model_checking",
  design_ref="DESIGN.md section 5, C01",
  text=("WriterSpec gives the meaning of open(append/replace/reset), "
        "store_feature, store_log and close on token sequences and is the "
        "oracle; WriterImpl transcribes write_ndarray's resize + chunk loop "
        "with remainder, write_ragged's per-instance counter and "
        "write_text's fixed string width and is checked by TLC against the "
        "spec (ReadBack, LogsIntact, AppendOnly) for all histories in the "
        "bound. Every history up to the depth bound, for each feature kind "
        "(scalar, uint32, image, mask, contour, trace) and 5 log-line "
        "classes, is executed on the real RTDCWriter with the chunk length "
        "forced to 10 (and 13); after every close the file is read through "
        "dclab and raw h5py and decoded bit-exactly back to tokens."),
  note=("compression filters trusted; metadata typing is decided by C11; "
        "sizes per call {1,10,11} (thorough {1,9,10,11,21}); quick depth 5 "
        "(logs 4), thorough 6 (logs 5); two features per TLC instance."),
  technique="TLC model checking + spec-history replay on real files",
 ),
 "C16": dict(
  level="model_checking",
  design_ref="DESIGN.md section 5, C16",
  text=("DownsampleSpec states the post-condition (mask within the eligible "
        "points, exactly min(request, eligible) points, all eligible for "
        "request 0) and transcribes the data-dependent branches of "
        "downsample_grid (occupancy grid, remove/add, padding with invalid "
        "points); TLC checks the transcription against the post-condition "
        "for every validity/occupancy pattern and request in the bound. "
        "Every such input is realised as duplicate-heavy / clustered / "
        "constant / spread arrays and given to downsample_grid, "
        "downsample_rand, get_downsampled_scatter on a filtered dataset and "
        "the event-limit filter, checking mask, count, unaltered values and "
        "reproducibility (cache hit and cleared cache); large random inputs "
        "are recorded as counts and judged by TLC (DownsampleTrace)."),
  note=("the compiled Cython extension as installed is what is exercised "
        "(.pyx cannot be rebuilt here); two defects inside downsampling.pyx "
        "are listed as known findings because a repair cannot be built or "
        "verified in this sandbox; inputs up to 5 (thorough 6) points "
        "exhaustively, up to 1e5 points recorded."),
  technique="TLC enumeration of inputs + post-condition check on real code + TLC trace validation",
 ),
 "C04": dict(
  level="model_checking",
  design_ref="DESIGN.md section 5, C04",
  text=("HierarchySpec keeps, per level, the range predicate and the manual "
        "exclusions in root ids and defines every child's events as the "
        "parent's selection (TLC checks ChildIsFilteredParent and that "
        "manual exclusions change only by explicit edits). All "
        "(edit; rejuvenate)* histories up to the depth bound over 2 (3) "
        "nested children of a 5-event HDF5 root are executed on real "
        "RTDC_Hierarchy objects; after every refresh the decoded root ids "
        "of every level, every feature (scalar, image, mask, contour, trace, "
        "ancillary time, temporary) against the root restricted to those "
        "ids, the visible manual exclusions and the youngest selection are "
        "compared. Free interleavings from TLC's simulator over 3 children "
        "are executed, recorded and validated by TLC (HierarchyTrace)."),
  note=("refreshes only through youngest.rejuvenate(); range filters are "
        "intervals of a monotone feature; quick: L=2, 3 edit/refresh pairs "
        "+ 600 simulated schedules of depth 12; thorough: L<=3, 4 pairs, "
        "dict root for a seventh of the histories, 15000 schedules."),
  technique="TLC model checking + spec-history replay + TLC trace validation",
 ),
 "C02": dict(
  level="model_checking",
  design_ref="DESIGN.md section 5, C02",
  text=("ExportSpec states that the exported sequence is the source "
        "restricted to the mask (everything when filtering is off) and "
        "transcribes both routes of yield_filtered_array_stacks (index-array "
        "slicing, reused chunk buffer); TLC proves for every mask of sources "
        "up to MaxN events and chunk lengths 1..3 that the concatenated "
        "stacks are exactly the selection. The same enumeration (all masks "
        "of small sources + prefix/suffix/strided masks straddling one and "
        "two chunks of a 23-event source, filtered and unfiltered) is "
        "exported from HDF5, in-memory (incl. a non-scalar temporary "
        "feature), hierarchy-child and basin-backed sources; the .rtdc is "
        "re-read and decoded to tokens (scalar, image, mask, contour, "
        "trace), metadata/logs/tables are compared and the .tsv parsed; "
        "tdms fixtures are exported and compared by value."),
  note=("export chunk forced to 10 events; avi/fcs exporters are outside "
        "the property; tdms fixtures are truncated, only their complete "
        "features are used; quick MaxN=6, thorough MaxN=8."),
  technique="TLC model checking + TLC-enumerated cases replayed on real exports",
 ),
 "C15": dict(
  level="model_checking",
  design_ref="DESIGN.md section 5, C15",
  text=("PolygonSpec defines even-odd containment as the parity of proper "
        "crossings of a ray that provably avoids all vertices, with integer "
        "cross products only, and transcribes the half-open rule of "
        "point_in_polygon; TLC proves them equal for every polygon with "
        "MinV..MaxV vertices on the grid (convex, concave, self-"
        "intersecting, repeated vertices) and every half-lattice and "
        "lattice point off the boundary, plus invariance under cyclic "
        "shift, reversal and a repeated closing vertex. The classification "
        "table emitted by TLC is compared with the compiled "
        "PolygonFilter.filter / point_in_poly for every polygon and point, "
        "as given/shifted/reversed/closed/inverted and under exact "
        "similarity transforms spanning 12 orders of magnitude. "
        "PolyFileSpec enumerates sets of filters for .poly round trips."),
  note=("compiled Cython code as installed; coordinates exactly "
        "representable (random non-dyadic floats whose classification "
        "depends on rounding of the division are not decided, DESIGN 7); "
        "quick: G=3 with 3..4 vertices (7290 polygons x 49 points); "
        "thorough: G=3 up to 5 vertices and G=4 up to 4 vertices."),
  technique="TLC exhaustive equivalence proof on the lattice + table replay on compiled code",
 ),
 "C11": dict(
  level="model_checking",
  design_ref="DESIGN.md section 5, C11",
  text=("MetaSpec is the table of documented type classes, payloads, "
        "accepted representations, setting routes and rejected inputs with "
        "the value that must be stored; TLC enumerates it (and checks it is "
        "total) and MC_MetaPipes enumerates pipelines of storage steps that "
        "must be the identity. Every case is instantiated for every "
        "concrete key of its type class read from dclab.definitions at run "
        "time (about 110 keys incl. online_filter pattern keys) and compared "
        "by value, documented type and idempotence; every pipeline is run "
        "on a file holding all metadata keys plus user entries and compared "
        "after every step (write/read, export, compress, repack, text)."),
  note=("a converter missing from the spec's type classes aborts the check "
        "(machinery failure) instead of being silently skipped; keys "
        "auto-completed by the writer are excluded from storage pipelines; "
        "user entries are not claimed for the text round trip."),
  technique="TLC-enumerated decision table replayed on every concrete key + storage pipelines",
 ),
 "C06": dict(
  level="model_checking",
  design_ref="DESIGN.md section 5, C06",
  text=("AncillarySpec is history-free: what a read returns is a function "
        "of the current configuration keys and temporary feature only, "
        "`in` agrees with whether the read succeeds, and scenario C ignores "
        "the temp feature. TLC enumerates every sequence of edits (set/"
        "change/delete each [calculation]/[imaging] key, set/replace the "
        "temp feature) up to the depth bound from six preset configurations "
        "(empty, scenarios A/B/C, everything set) with reads in between or "
        "not; each history runs on a long-lived dataset and every read of "
        "emodulus, time, fl1_max_ctc, area_ratio is compared with a freshly "
        "constructed dataset holding the same data and current settings."),
  note=("in-memory datasets with a small registered LUT (a 10^4-node LUT "
        "costs 1 s per read); quick depth 2 (5.9k histories), thorough "
        "depth 3; ML/plugin features and hierarchy refresh are exercised by "
        "C04; two availability inconsistencies pinned by existing tests are "
        "listed as known findings."),
  technique="TLC-enumerated edit/read histories vs. fresh-dataset oracle",
 ),
 "C12": dict(
  level="model_checking",
  design_ref="DESIGN.md sections 5 (C12) and 7",
  text=("StatsSpec defines the events an analysis may use (mask, or all "
        "when filters are disabled) and the exact rational Mean, Median, "
        "Variance, Events and %-gated on their finite values; TLC "
        "enumerates every data instance (NaN/inf/ties) x every mask x "
        "enabled x poisoned-excluded-events. For each case the filtered "
        "dataset and a dataset holding only the used events are built and "
        "every entry point (statistics, 4 KDE types x linear/log scatter, "
        "explicit positions, contour grids, downsampled scatter, tsv) must "
        "agree between the two, the statistics also with TLC's rationals. "
        "Recorded larger datasets are judged by TLC (StatsTrace): contour "
        "densities must not depend on excluded events and the quantile "
        "level must leave the fraction q of the events below it."),
  note=("claimed without the clause 'each density estimate equals the "
        "reference estimator' (transcendental numerics, no finite model; "
        "DESIGN section 7) and without the Freedman-Diaconis Mode value "
        "(only its non-interference); 1024 exhaustive cases + 60 (600) "
        "recorded datasets."),
  technique="TLC-enumerated cases with exact rational oracles + non-interference replay + TLC trace validation",
 ),
 "C18": dict(
  level="model_checking",
  design_ref="DESIGN.md sections 5 (C18) and 7",
  text=("Five specifications with exact integer/rational oracles whose "
        "laws TLC checks on every instance: MaskSpec (reachable states = "
        "all 4-connected masks of a window; hole-freeness by flood fill; "
        "boundary pixels), MomentsSpec (Green's formula moments of every "
        "lattice polygon; translation invariance and axis-swap reciprocity "
        "proved by TLC), VolumeSpec (truncated-cone sums; sign flip and "
        "cubic scaling proved by TLC), BrightSpec (mean/variance/10th/90th "
        "percentile of background-corrected integer images under masks), "
        "CrosstalkSpec (integer-percent spill). Every enumerated instance "
        "is evaluated by dclab.features.* and compared: contour on the "
        "boundary and refill = mask (interior and border-touching), "
        "moments, inert_ratio_raw^2 = mu20/mu02, prnc >= 1 and rotation "
        "invariant, volume laws, brightness with scalar/per-event offsets "
        "in list/array containers, crosstalk inversion."),
  note=("claimed without 'approaches the analytic volume for discretised "
        "spheres' (asymptotic) and the value of tilt (arctan); compiled "
        "contour finder as installed; quick: 4x4 window (half of 11k masks), "
        "7k polygons, 7k profiles, quarter of 19k images, 1.7k matrices."),
  technique="TLC-enumerated lattice instances with exact oracles replayed on dclab.features",
 ),
 "C05": dict(
  level="model_checking",
  design_ref="DESIGN.md sections 5 (C05) and 7",
  text=("EmodulusSpec computes, for a lattice LUT whose Delaunay "
        "triangulation is the same under every axis scaling (triangle + "
        "interior node), the exact rational barycentric interpolation "
        "(NaN outside the hull) after the documented scaling laws, and TLC "
        "proves proportionality to viscosity and flow rate and invariance "
        "under joint geometric rescaling for every batch and parameter "
        "set. Every enumerated batch (points inside, on nodes/edges, "
        "outside hull and bounding box) x integer ratios is evaluated by "
        "get_emodulus through the array+meta, path and registered-"
        "identifier routes: as a batch, event by event and repeatedly, with "
        "the caller's arrays and LUT checked for modification. Paired calls "
        "on the three built-in LUTs are recorded in micro-kPa and TLC "
        "(EmodulusTrace) decides the laws: viscosity x2, flow rate x2, "
        "joint rescale, batch split, per-event vs global temperature."),
  note=("claimed without 'equals the piecewise-linear interpolation of the "
        "selected built-in table' over the continuous plane and without the "
        "viscosity formulas (numeric accuracy, DESIGN section 7); px_um = 0 "
        "only; quick: a sixth of the cases + 24 pairs; thorough: all + 240; px_um = 0 on the lattice table, the pixelation law on the built-in tables."),
  technique="TLC exact rational oracle on a lattice LUT + TLC-checked laws on recorded paired calls",
 ),
 "C07": dict(
  level="model_checking",
  design_ref="DESIGN.md section 5, C07",
  text=("BasinSpec models files derived from an origin by selections "
        "(increasing for filtered exports and exported hierarchy children, "
        "arbitrary - permutation, repetition, superset - for explicitly "
        "mapped basins) and states that every file shows, for every "
        "feature, the composed origin events (TLC checks the composition "
        "invariant and enumerates the chains). Each chain is built with "
        "real files (export.hdf5(basins=True), children, "
        "RTDCWriter.store_basin), every file is opened and every feature "
        "(scalar, image, mask, contour, trace) decoded to origin tokens, "
        "with int/negative/slice/boolean/index-array access, precedence of "
        "a feature stored in the file itself, and a move of the whole "
        "directory."),
  note=("remote basin formats (http/s3/dcor) are not exercised here (C14 "
        "covers the http permission rule); quick: a quarter of the 5.2k "
        "chains of depth 2, thorough: depth 3 sampled."),
  technique="TLC-enumerated derivation chains replayed on real basin files",
 ),
 "C14": dict(
  level="model_checking",
  design_ref="DESIGN.md section 5, C14",
  text=("BasinGraphSpec defines the files whose features a dataset may "
        "offer as the least fixed point of reachability over basin "
        "definitions that match (identifier equal, or prefix for mapped "
        "basins) and are permitted (no file-type basin below a network "
        "hop); TLC checks that no local file is ever followed below a "
        "remote hop and enumerates all graphs over 3 files with file/"
        "mapped definitions x identifier assignments, graphs with self "
        "references, and graphs with remote (http), dangling and local "
        "definitions for local and http roots. Every graph is written as "
        "real .rtdc files (store_basin(verify=False)), served by a loop-"
        "back range-capable http server where needed, opened under a 120 s "
        "watchdog (termination), and every feature is probed with `in`, "
        "read and decoded."),
  note=("S3/DCOR formats cannot be emulated (the rule they share, "
        "_local_basins_allowed, is exercised through http); quick: a sixth "
        "of the 6.5k local graphs, all K=2 graphs, 1/400 of the 281k mixed "
        "K=3 graphs; thorough: all local, 1/40 of the mixed."),
  technique="TLC-enumerated basin graphs with fixed-point oracle replayed on real files and a loop-back http server",
 ),
 "C09": dict(
  level="model_checking",
  design_ref="DESIGN.md section 5, C09",
  text=("SplitJoinSpec defines split as consecutive slices of bounded size "
        "(TLC checks it is a partition) and join as the concatenation in "
        "chronological order of (date, time incl. fractional seconds) with "
        "ties in the given order or by numeric run index, restricted to the "
        "common features. TLC enumerates every split (n <= 7, size <= 9) "
        "and join cases (2 inputs x all feature subsets x 4 acquisition "
        "times; 3 inputs x feature-set family x two dates; run-index ties) "
        "with admissible orders, concatenated tokens and common features; "
        "each case runs dclab.cli.split/join on generated files and the "
        "outputs are decoded to tokens; time/frame offsets, index, event "
        "count and retained logs are compared; the parts of every split "
        "are joined again and compared with the original."),
  note=("quick: 1/12 of the 2- and 3-input cases (about 700 joins) and all "
        "63 splits; thorough: all; features that are computable for some "
        "inputs only are not modelled."),
  technique="TLC-enumerated split/join cases replayed through the CLI functions",
 ),
 "C08": dict(
  level="model_checking",
  design_ref="DESIGN.md section 5, C08",
  text=("CopierSpec enumerates every valid HDF5 storage layout descriptor "
        "(contiguous/chunked, none/gzip/lzf/zstd1/zstd5/zstd9, chunk "
        "smaller/equal/larger than the data, one/many events, empty log, "
        "fixed/variable-length log strings) x every pipeline of one or two "
        "tasks (compress, repack, repack stripping logs or basins, condense "
        "with/without ancillary features) and transcribes h5ds_copy's case "
        "analysis; TLC proves every copy route value-preserving. Each case "
        "is materialised with raw h5py (independent of dclab's writer: "
        "features, image with attributes, log, compound table with "
        "attributes, user metadata, a file basin and an internal basin), "
        "the tasks run in-process, and input and output are compared with "
        "raw h5py and through dclab (stored, basin-provided and computed "
        "scalar features); sha256 of every input before/after. Two tdms "
        "fixtures are converted and compared with their source."),
  note=("compression filters trusted to be lossless; undefined feature "
        "names are outside the claim; other tdms fixtures are truncated and "
        "cannot be converted; quick: a quarter of the 3.7k cases."),
  technique="TLC-enumerated layout x pipeline product replayed with an independent raw-h5py generator and comparator",
 ),
 "C10": dict(
  level="fault_enumeration",
  design_ref="DESIGN.md section 5, C10",
  text=("TaskAtomicSpec models the file-system protocol of the tasks "
        "(unlink stale, open temp, writes, close, re-open, rename) with an "
        "I/O error or a kill possible before every operation; TLC proves "
        "that the output path is only ever absent or complete and only "
        "changes by the final rename, for the single-output, join and "
        "split program shapes (and rejects a program that writes to the "
        "output path). On the real code, every file operation of the "
        "fault-free run of each task (h5py open/close/create/write/resize/"
        "attribute/object copy, pathlib rename/unlink, counted by an "
        "interposer in a forked child) is made to fail with OSError and, "
        "separately, the child is killed right before it; after each of "
        "these runs every output path must be absent or load with the "
        "fault-free content, and the inputs' sha256 must be unchanged. The "
        "recorded operation traces are validated by TLC (TaskAtomicTrace)."),
  note=("fault enumeration at operation granularity in-process (not at "
        "syscall level); kernel/file-system durability of rename is not "
        "claimed; quick: one input per task, first/last 25 operations + 10 "
        "in between per task and mode (about 720 injected runs); thorough: "
        "two inputs per task, every operation."),
  technique="TLC protocol model + exhaustive fault/kill injection at every recorded file operation + TLC trace validation",
 ),
 "C13": dict(
  level="model_checking",
  design_ref="DESIGN.md section 5, C13",
  text=("CheckerSpec enumerates write path (writer, appended writer, "
        "export, filtered export, compress, repack, condense, split part, "
        "join) x every set of at most two of twelve seeded corruptions x "
        "copy by compress/repack, with the violation classes that must be "
        "reported (TLC checks closure: no corruption, no expected "
        "violation). Each case is produced by the real write path from a "
        "generated dataset with complete metadata, corrupted with raw h5py "
        "and given to check_dataset: clean files must have no violation "
        "(and dclab-verify-dataset no violation exit code), every applied "
        "corruption's class must be among the violations, and compressed/"
        "repacked copies must receive the same violations."),
  note=("violation classes are recognised by a keyword of the message; "
        "keys the writer re-derives on close (ROI size, samples per event) "
        "are repaired by a copy, which is not held against it; quick: all "
        "27 clean cases + a third of the 1.3k corrupted ones."),
  technique="TLC-enumerated write path x corruption product replayed on real files",
 ),
}

NOT_YET = "check not built yet (work in progress; see DESIGN.md section 5)"
NOT_APPLICABLE = {}

# extensions made after the seeded-change rounds (appended to the texts above)
ADDED = {
    "C05": "A second synthetic table with the same identifier and node count "
           "but other nodes, support and values makes the selected table "
           "part of every case, so that calls with both tables interleave "
           "in one process (independence of earlier calls).",
    "C06": "ReadOrderSpec adds the reads in between: a file-based dataset "
           "with image, background and mask and a basin that offers any "
           "subset of the brightness features with its own values; every "
           "sequence of reads must return what a freshly opened dataset "
           "returns (basin data for basin-provided features, whatever a "
           "multi-feature recipe computed before).",
    "C07": "A second enumeration covers EVERY mapping array of length 1..4 "
           "over four origin events as an explicitly mapped basin; access "
           "patterns are also tried as the first access on a freshly opened "
           "dataset; the reported length/shape and slice/boolean access to "
           "contours are compared as well.",
    "C08": "Inputs also come with 3001 events (HDF5 splits an unchunked "
           "destination into several chunks with a remainder; single-task "
           "pipelines) and with extras on two layouts: stored features "
           "dclab treats as defective (float32 time, ShapeIn-2.0.6 aspect), "
           "an unknown feature, a mapped file basin - such stored datasets "
           "need not be carried over, the dataset-level features must agree.",
    "C09": "Input files are named so that the alphabetical order of their "
           "paths differs from the given order.",
    "C11": "The bool-or-float class includes the number one (a float, not "
           "the truth value it equals) in native/int/string/numpy form.",
    "C12": "Half of the recorded datasets use a logarithmic x axis with "
           "non-positive selected values that fall outside the density grid "
           "(they count as events with density zero).",
    "C13": "The image-shaped content of the written dataset is a dimension "
           "of its own: every subset of image, image_bg, mask with the "
           "corruptions that depend on it.",
    "C14": "Identifier assignments include a suffix and an inner part of "
           "the referrer's identifier (contained in it, not a prefix).",
}
for _pid, _txt in ADDED.items():
    CHECKS[_pid]["text"] += " " + _txt
CHECKS["C06"]["text"] += (
    " Which features an observation reads, and in which order, is chosen per "
    "history (one feature, or all in a rotated order); two plug-in features "
    "depend on the computed area_um / time, and histories that edit the "
    "pixel size or frame rate also run on a dataset whose area_um is "
    "computed.")
CHECKS["C20"]["text"] += (
    " An integer-typed feature runs on every NaN-free history and all "
    "histories in which the stored summaries go missing are kept in the "
    "quick tier.")
CHECKS["C04"]["text"] += (
    " HierarchyImpl transcribes the bookkeeping of manual exclusions "
    "(hfilter.py, mapper.py, base.py) and TLC compares it with the "
    "specification through a ghost variable (repaired parent hash: "
    "invariants hold; pinned parent hash: counter-example). Focused runs "
    "with root windows of equal size drive 3 and 4 nested children; access "
    "patterns (negative index, slice, boolean mask) and reported shapes of "
    "image/mask/contour/trace are compared at the last refresh.")
CHECKS["C14"]["text"] += (
    " Chains, k-cycles, cycles off the root and diamonds over 4..6 files "
    "and files without any identifier are enumerated as well; features "
    "behind a network hop are not demanded (dclab's 0.5 s probe).")
CHECKS["C17"]["text"] += (
    " The adversarial pool includes a byte-swapped pair (same bytes, shape "
    "and item size, other values).")
CHECKS["C18"]["text"] += (
    " The spill/correct law also goes through the dataset features "
    "flN_max_ctc (three channels and every pair, coefficients incl. exact "
    "zeros); get_volume(fix_orientation=True) must return one of the two "
    "orientations' volumes.")
CHECKS["C13"]["text"] += (
    " The index corruption comes as a permutation and as consecutive values "
    "with an offset.")
CHECKS["C16"]["text"] += (
    " The event limit is applied twice on one dataset with the same number "
    "but another set of eligible events and compared with a fresh dataset.")
CHECKS["C01"]["text"] += (
    " Log lines include one with more UTF-8 bytes than characters beyond "
    "the default width (also in the C02 and C08 inputs).")
CHECKS["C07"]["text"] += (
    " BasinImpl transcribes the basin list written by Export.hdf5 (copy of "
    "upstream basins, reference to the source, composition with the child's "
    "root indices and with the filter) and TLC checks that every definition "
    "addresses the file's own events (composed child maps: holds; pinned "
    "commit: counter-example).")
CHECKS["C11"]["text"] += (
    " Routes include a configuration file with capitalised key names; "
    "string payloads include texts that look like a number or a truth "
    "value.")
CHECKS["C13"]["text"] += (
    " The fluorescence channel of the measurement (1 with traces, 2, 3) is "
    "a dimension for the fluorescence corruptions (incl. a missing "
    "mandatory fluorescence key).")
CHECKS["C14"]["text"] += (
    " Definitions of type 'remote' whose format and location are those of a "
    "local file are a kind of their own: never followed below a network "
    "hop.")
CHECKS["C05"]["text"] += (
    " The lattice tables also exist with the volume as first column (event "
    "abscissa scaling with wr^3); every lattice case compares a global with "
    "a per-event temperature; the recorded laws run at channel widths 20, "
    "30 and 40 um and include the pixelation correction.")
CHECKS["C01"]["text"] += (
    " Code -> spec: long random writer sessions (several writer instances, "
    "all modes, every feature kind, logs of every line class, two chunk "
    "configurations) are recorded with the decoded file content at every "
    "close and judged by TLC against WriterTrace (binding self-test: a "
    "dropped event must be rejected).")
CHECKS["C08"]["text"] += (
    " Tasks include condense without basin features (reference: the input "
    "read with basins disabled); condense must carry the file basin "
    "definitions over; one input has an internal basin that offers only an "
    "image-shaped feature and precedes the file basin.")
CHECKS["C17"]["text"] += (
    " Two pool members pass the keyword arguments of downsample_grid in "
    "different orders with different bindings whose values, read in call "
    "order, coincide.")
CHECKS["C09"]["text"] += (
    " Every input carries index_online: in the joined file each source's "
    "values are kept up to one offset and never run backwards between "
    "sources.")
CHECKS["C02"]["text"] += (
    " A second .tsv export includes a scalar feature that holds NaN for "
    "every second event (the rows are the selected events all the same); "
    "file sources carry image_bg.")
CHECKS["C01"]["text"] += (
    " The index feature is written explicitly in all modes: the file must "
    "enumerate 1..N whatever is handed in.")
CHECKS["C20"]["text"] += (
    " At the end of a quarter of the histories the summaries reported "
    "through a basin-backed referrer and by a file joined from the file "
    "and a copy are compared with their data; so are those of a hierarchy "
    "child after a refresh.")
CHECKS["C07"]["text"] += (
    " Derivations include files that carry the source's rows themselves as "
    "an internal basin addressed through a mapping (image, mask, two scalar "
    "features).")
CHECKS["C12"]["text"] += (
    " With filtering disabled an event limit is set as well (it is part of "
    "the filter: all events are used).")
CHECKS["C04"]["text"] += (
    " Access patterns include slices with negative bounds and an empty "
    "slice.")
CHECKS["C06"]["text"] += (
    " The temporary features come as a set (temperature and two ML scores "
    "whose replacement changes every event's class); ml_class is among the "
    "features read.")
CHECKS["C04"]["text"] += (
    " A temporary feature can be assigned through any level of a hierarchy "
    "(the root then holds it with NaN for the events that level does not "
    "show; the assignment refreshes that level and its ancestors only); "
    "histories 'pending range filter, assignment, exclusion, refresh' are "
    "enumerated separately.")
CHECKS["C04"]["note"] += (
    " Known finding: a manual edit made on a level younger than the one a "
    "temporary feature was just assigned through is lost at the next "
    "refresh.")
CHECKS["C18"]["text"] += (
    " Brightness features are also computed with a background of fractional "
    "grey values.")
CHECKS["C13"]["text"] += (
    " The write paths cross the (forced) chunk length: 13 events, of which "
    "the filtered export and the first split part hold 11.")
CHECKS["C11"]["text"] += (
    " In the storage pipelines a given fluorescence channel count must "
    "survive on a file with one fluorescence feature (the writer completes "
    "it only when missing).")
CHECKS["C11"]["text"] += (
    " Representations include the UTF-8 bytes of texts and numeric strings.")
CHECKS["C02"]["text"] += (
    " Metadata are compared with the measurement's as captured before the "
    "first export; a second, unfiltered export from the same dataset "
    "instance must carry them unchanged.")
CHECKS["C08"]["text"] += (
    " Inputs hold two tables with attributes of their own.")
CHECKS["C14"]["text"] += (
    " File-type definitions with an explicitly empty feature list never "
    "contribute; a dangling location may also be a directory.")
CHECKS["C04"]["text"] += (
    " The root change also edits a [calculation] key; histories 'root "
    "change, exclusion on some level, refresh' are enumerated for 3 and 4 "
    "children.")
CHECKS["C07"]["text"] += (
    " Chains in which two mapped basins with different maps of equal length "
    "and equal end points meet in one file are enumerated separately.")
CHECKS["C13"]["text"] += (
    " Laser corruptions: a wrong laser count and a counted laser without "
    "its power key.")
CHECKS["C06"]["text"] += (
    " The documented precedence of the Young's modulus scenarios is an "
    "oracle of its own (AncillarySpec.Scenario): in every observed state "
    "emodulus must be available exactly for scenarios A/B/C and equal the "
    "value get_emodulus gives for that scenario's inputs.")
CHECKS["C12"]["text"] += (
    " Bin widths (Doane, percentile) and the default kde spacing must not "
    "depend on invalid values among the selected events.")
CHECKS["C05"]["text"] += (
    " Before the repeated call a caller loads the table itself and "
    "overwrites the array and metadata it was handed.")
CHECKS["C15"]["text"] += (
    " Plain and inverted copies of inverted and non-inverted filters are "
    "classified as well.")
CHECKS["C18"]["text"] += (
    " Inertia ratios are also computed for float64 contours, whose arrays "
    "must be left unchanged.")
CHECKS["C11"]["text"] += (
    " The empty byte string is among the rejected inputs.")
CHECKS["C01"]["text"] += (
    " Metadata write calls are a specification of their own "
    "(WriterMetaSpec: last write wins key by key, reset discards): all "
    "sessions of open/store_metadata/close over eight key classes whose "
    "payload variants have different Python types are replayed.")
CHECKS["C11"]["text"] += (
    " Storage pipelines include a second writer session that overwrites "
    "every key with another payload variant (user entries change type).")
CHECKS["C02"]["text"] += (
    " A source file whose image feature is shorter than its scalar "
    "features must be exported with all features limited to the common "
    "events, in every selection mode.")
CHECKS["C04"]["text"] += (
    " Every second root change leaves [calculation] alone, so that "
    "ancillary features of the children depend on the refresh alone.")
CHECKS["C06"]["text"] += (
    " A quarter of the histories are also observed through a hierarchy "
    "child that is refreshed before every observation.")
CHECKS["C08"]["text"] += (
    " One input holds a stored feature with invalid values (and, like all "
    "inputs, no stored summaries): what every stored feature reports as "
    "minimum, maximum and mean is compared before and after each task.")
CHECKS["C05"]["text"] += (
    " Every law is recorded on every built-in table; the law "
    "'medium-spelling' runs through every documented name of every medium "
    "in the given and the all-lower-case spelling.")
CHECKS["C10"]["text"] += (
    " The content of an output that exists after a fault is every stored "
    "scalar feature, compared with the fault-free output; up to 200 "
    "operations every fault point is taken in the quick tier too.")
CHECKS["C12"]["text"] += (
    " What a density estimator reports for a position must not depend on "
    "how many other positions are asked for in the same call (1, 2 and 3 "
    "positions, every estimator).")
CHECKS["C15"]["text"] += (
    " After a file has been loaded, filters registered later (without "
    "requested identifier, and by loading the file again) must take other "
    "identifiers: every identifier keeps resolving to its own filter.")
CHECKS["C14"]["text"] += (
    " Every second graph gives its file locations relative to the referring "
    "file (the working directory is elsewhere) or as a dangling absolute "
    "location followed by a relative one.")
CHECKS["C13"]["text"] += (
    " Channel and laser counts of zero (although channels / lasers exist) "
    "are corruptions of their own.")
CHECKS["C11"]["text"] += (
    " User entries include sequences with a single element, which stay "
    "sequences.")
CHECKS["C12"]["text"] += (
    " The mask returned with downsampled scatter data marks nothing "
    "excluded and equals, on the selected events, the mask of the "
    "selected-only dataset.")
CHECKS["C06"]["text"] += (
    " The temporary feature set includes temporary features named like two "
    "computed features (time, area_ratio): they take precedence whether or "
    "not the computed feature was read before.")
CHECKS["C19"]["text"] += (
    " All file objects of a run use one URL on one long-lived session (as "
    "dclab's per-host session cache does), so what the URL serves is "
    "replaced between file objects.")
CHECKS["C20"]["text"] += (
    " A second value alphabet {int, NaN, +inf} (exact arithmetic extended by "
    "+infinity in SummariesSpec) is enumerated and replayed as well.")
CHECKS["C17"]["text"] += (
    " A fourth pool family holds a square two-dimensional array and its "
    "transpose (views of the same memory).")
CHECKS["C18"]["text"] += (
    " The contours of a stack of masks are read event by event in an order "
    "with repetitions and compared with the contour of each mask.")
CHECKS["C13"]["text"] += (
    " A stored index feature with fewer entries than events is a corruption "
    "of its own (the checker must report, not raise).")
CHECKS["C01"]["text"] += (
    " Every scalar feature name of dclab.definitions is written with "
    "real-valued data (fractions, negative values; integers for the "
    "integer-typed features) in two appends and read back.")
CHECKS["C02"]["text"] += (
    " The .tsv export replaces an existing file (an earlier export of all "
    "events with another column set).")
CHECKS["C08"]["text"] += (
    " In one extra the output of the first task is requested next to the "
    "input under the input's stem with another suffix; the input must stay.")
CHECKS["C10"]["text"] += (
    " Variant 3 requests the output next to the input under the input's stem "
    "with another suffix (compress, repack, condense).")
CHECKS["C13"]["text"] += (
    " The missing-key corruption removes each mandatory key in turn (all "
    "documented keys for every measurement and for fluorescence).")
CHECKS["C05"]["text"] += (
    " The pixelation law runs at four pixel sizes on every table.")
CHECKS["C11"]["text"] += (
    " Truth values given as non-zero fractions (number, text, bytes, "
    "negative) are true.")
CHECKS["C09"]["text"] += (
    " Every join input has a frame rate of its own.")
CHECKS["C16"]["text"] += (
    " After a scatter request the caller overwrites the arrays it was "
    "handed; the repeated identical request must return events of the "
    "dataset again.")
CHECKS["C15"]["text"] += (
    " The saved shapes include a star with twelve vertices; the loaded "
    "vertices are compared as well.")
CHECKS["C18"]["text"] += (
    " Densely sampled ellipses at three places of a channel image, three "
    "pixel sizes and both orientations: the volume with fix_orientation is "
    "positive, the same for both orientations, the plain volume up to the "
    "sign and within 1% of the ellipsoid's.")
CHECKS["C04"]["text"] += (
    " A further family lets a range filter on the root or the first child "
    "pass all, some or no events (a level is temporarily empty) with manual "
    "edits on every level.")
CHECKS["C02"]["text"] += (
    " The file source holds logs and tables of an earlier export generation "
    "(names that already carry the prefix); every one must arrive under its "
    "prefixed name with its own content.")
CHECKS["C20"]["text"] += (
    " The same values held in memory (dict-based dataset) are observed "
    "through a hierarchy child whose parent filters nothing.")
CHECKS["C01"]["text"] += (
    " Two channels of the trace feature written separately are features of "
    "their own in the histories (all modes).")
CHECKS["C16"]["text"] += (
    " After reset_filter() every event is eligible at once.")
CHECKS["C03"]["text"] += (
    " A scalar feature with invalid values may arrive on the open dataset "
    "(action AddFeature): from then on its invalid events count.")
CHECKS["C05"]["text"] += (
    " The pixelation reference is the published formula written out "
    "independently; a user-supplied table over (volume, deform) is run "
    "through the same law.")
CHECKS["C06"]["text"] += (
    " A further variant holds the channels 1 and 3 only (the crosstalk "
    "coefficients of that pair are edited).")
CHECKS["C12"]["text"] += (
    " The same values held as int64, float32 and float64 give the same "
    "density estimates.")
CHECKS["C14"]["text"] += (
    " The same few directories are reused for all graphs of a process: what "
    "a location holds is replaced between graphs.")
CHECKS["C15"]["text"] += (
    " Classification does not depend on the data type of the x data "
    "(integers, float32).")
CHECKS["C10"]["text"] += (
    " A published output is complete only if it also reports the length and "
    "carries the metadata of the fault-free output (the run identifier, "
    "which a filtered export derives afresh, is not compared).")
CHECKS["C18"]["text"] += (
    " A contour of at least four points has a finite volume.")
CHECKS["C17"]["text"] += (
    " The contour schedules interleave accesses to an event whose contour "
    "cannot be computed; the other events still get their own contour.")
