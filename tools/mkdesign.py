#!/usr/bin/env python3
"""Regenerate the generated regions of DESIGN.md (per-property summary,
findings table, seeded-change table) from tools/registry.py,
KNOWN_FINDINGS.json and seeded/*/meta.json.  Regions are delimited by
<!-- BEGIN:name --> / <!-- END:name --> markers."""
import json
import pathlib
import re
import sys

sys.path.insert(0, "/verif/tools")
import registry  # noqa: E402

ROOT = pathlib.Path("/verif")
MODS = {
    "C01": "WriterSpec, WriterImpl, WriterTrace", "C02": "ExportSpec",
    "C03": "FilterSpec, FilterImpl, FilterTrace",
    "C04": "HierarchySpec, HierarchyImpl, HierarchyTrace",
    "C05": "EmodulusSpec, EmodulusTrace",
    "C06": "AncillarySpec, ReadOrderSpec", "C07": "BasinSpec, BasinImpl",
    "C08": "CopierSpec", "C09": "SplitJoinSpec",
    "C10": "TaskAtomicSpec, TaskAtomicTrace", "C11": "MetaSpec, MC_MetaPipes",
    "C12": "StatsSpec, StatsTrace", "C13": "CheckerSpec",
    "C14": "BasinGraphSpec", "C15": "PolygonSpec, PolyFileSpec",
    "C16": "DownsampleSpec, DownsampleTrace",
    "C17": "CacheSpec, CacheImpl, FileHashSpec",
    "C18": "MaskSpec, MomentsSpec, VolumeSpec, BrightSpec, CrosstalkSpec",
    "C19": "HttpFileSpec, HttpFileImpl, HttpFileTrace", "C20": "SummariesSpec"}


def props():
    return {json.loads(ln)["id"]: json.loads(ln)
            for ln in open(ROOT / "properties.jsonl")}


def summary():
    out = ["| id | spec modules | level | deciding technique |",
           "|----|--------------|-------|--------------------|"]
    for pid in sorted(registry.CHECKS):
        c = registry.CHECKS[pid]
        out.append("| %s | %s | %s | %s |" % (pid, MODS[pid], c["level"],
                                              c["technique"]))
    out.append("")
    pr = props()
    for pid in sorted(registry.CHECKS):
        c = registry.CHECKS[pid]
        out += ["### %s — %s\n" % (pid, pr[pid]["title"]), c["text"] + "\n",
                "*Bounds / trusted base.* " + c["note"] + "\n"]
    return "\n".join(out)


def findings():
    kf = json.load(open(ROOT / "KNOWN_FINDINGS.json"))["findings"]
    out = ["| property | status | commit | what failed |", "|---|---|---|---|"]
    for f in kf:
        out.append("| %s | %s | %s | %s |" % (
            f["property"], f["status"], f.get("commit", "–"),
            f["what"].replace("|", "/")))
    n_fix = sum(f["status"] == "fixed" for f in kf)
    out.append("\n%d repaired (`fix:` commits in /repo), %d known signatures."
               % (n_fix, len(kf) - n_fix))
    return "\n".join(out)


def seeded():
    out = ["| seeded change | property | needs to manifest | caught by |",
           "|---|---|---|---|"]
    n = 0
    for d in sorted((ROOT / "seeded").iterdir()):
        if not d.is_dir():
            continue
        m = json.load(open(d / "meta.json"))
        n += 1
        out.append("| %s | %s | %s | %s |" % (
            d.name, m["property"],
            m["needs"].replace("|", "/").replace("\n", " ")[:260],
            m["detected_by"].replace("|", "/")[:320]))
    out.append("\n%d seeded changes kept; all are detected by the quick tier "
               "(last full regression: `seeded/REGRESSION.txt`, "
               "`tools/regress_parallel.sh`)."
               % n)
    return "\n".join(out)


def main():
    p = ROOT / "DESIGN.md"
    s = p.read_text()
    for name, fn in (("summary", summary), ("findings", findings),
                     ("seeded", seeded)):
        pat = re.compile(r"(<!-- BEGIN:%s -->\n).*?(\n<!-- END:%s -->)"
                         % (name, name), re.S)
        if not pat.search(s):
            raise SystemExit("marker %s missing" % name)
        s = pat.sub(lambda m: m.group(1) + fn() + m.group(2), s)
    p.write_text(s)
    print("DESIGN.md regions regenerated")


if __name__ == "__main__":
    main()
