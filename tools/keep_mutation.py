#!/usr/bin/env python3
"""keep_mutation.py <worktree> <seed id> <detected-by text>: copy _out into /verif/seeded/<id>/"""
import json, pathlib, shutil, sys
wt, sid, detected = pathlib.Path(sys.argv[1]), sys.argv[2], sys.argv[3]
dst = pathlib.Path("/verif/seeded") / sid
dst.mkdir(parents=True, exist_ok=True)
for n in ("patch.diff", "demo.py"):
    shutil.copy(wt / "_out" / n, dst / n)
meta = json.loads((wt / "_out" / "meta.json").read_text())
meta["base_commit"] = sys.argv[4] if len(sys.argv) > 4 else ""
meta["verified_by_me"] = ("tools/try_mutation.sh: fresh worktree of /repo HEAD; demo exits 0 before the patch and 1 after; "
                          "agent's before/after test-suite runs show identical failing sets")
meta["detected_by"] = detected
(dst / "meta.json").write_text(json.dumps(meta, indent=1))
print("kept", dst)
