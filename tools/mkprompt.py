#!/usr/bin/env python3
"""mkprompt.py <PID> <worktree> <flavour text> -> mutation prompt on stdout"""
import json, sys
pid, wt, flavour = sys.argv[1], sys.argv[2], sys.argv[3]
for l in open('/verif/properties.jsonl'):
    p = json.loads(l)
    if p['id'] == pid:
        break
t = open('/verif/tools/mutation_prompt.txt').read()
print(t.replace('{WT}', wt).replace('{PID}', pid).replace('{TITLE}', p['title'])
      .replace('{STATEMENT}', p['statement']).replace('{QUANT}', p['quantifier']['text'])
      .replace('{FLAVOUR}', flavour))
