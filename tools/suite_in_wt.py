#!/usr/bin/env python3
"""suite_in_wt.py <worktree>: run dclab's pinned test-suite inside a scratch worktree
(PYTHONPATH=<worktree>) and compare with BASELINE stable_pass; exit 1 if a stable test no longer passes."""
import json
import subprocess
import sys
import xml.etree.ElementTree as ET

wt = sys.argv[1].rstrip("/")
tag = wt.replace("/", "_")
out = "/dev/shm/vp_wt%s.junit.xml" % tag
subprocess.run("cd %s && PYTHONPATH=%s /venv/bin/python -m pytest -ra -q -p no:cacheprovider "
               "--timeout=900 --continue-on-collection-errors -n 4 "
               "--junitxml=%s >/dev/shm/vp_wt%s.log 2>&1" % (wt, wt, out, tag), shell=True)
base = json.load(open("/root/.vp/BASELINE.json"))
passed = set()
for tc in ET.parse(out).getroot().iter("testcase"):
    if not any(ch.tag in ("failure", "error", "skipped") for ch in tc):
        passed.add(tc.get("classname") + "::" + tc.get("name"))
missing = [t for t in base["stable_pass"] if t not in passed]
print(wt, "stable_pass:", len(base["stable_pass"]), "passed now:", len(passed), "missing:", len(missing))
for t in missing[:30]:
    print("  MISSING", t)
sys.exit(1 if missing else 0)
